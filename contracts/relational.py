"""relational contracts (C18, C07, C06): two symbolic executions of the REAL function on related inputs, results compared.
T2: every number of items up to the bound, ALL values; the real manager classes are executed."""
import itertools
from .common import *
from .binners import VALUEOF

PARTITIONERS = {"greedy": "prtpy/partitioning/greedy.py::greedy", "roundrobin": "prtpy/partitioning/roundrobin.py::roundrobin",
                "kk": "prtpy/partitioning/karmarkar_karp_sy.py::kk"}
PACKERS = {"ff": "prtpy/packing/first_fit.py::online", "ffd": "prtpy/packing/first_fit.py::decreasing", "bf": "prtpy/packing/best_fit.py::online",
           "bfd": "prtpy/packing/best_fit.py::decreasing", "cover_decreasing": "prtpy/packing/greedy_covering.py::decreasing",
           "twothirds": "prtpy/packing/cflz_covering.py::twothirds", "threequarters": "prtpy/packing/cflz_covering.py::threequarters"}
SORTING = {"greedy", "roundrobin", "kk", "ffd", "bfd", "cover_decreasing", "twothirds", "threequarters"}


def scaled_valueof(c):
    return Builtin("binner.valueof", lambda it, a, k: SV(c * L.val(a[0].t)))


def sums_of(it, res):
    if isinstance(res, tuple) and len(res) == 2 and isinstance(res[0], NdArr):
        return [term_of(x) for x in res[0].tolist()]
    if isinstance(res, NdArr):
        return [term_of(x) for x in res.tolist()]
    raise Unsupported("result is not a bins-array of a shipped manager")


def sorted_terms(it, ts):
    from pyvc.lib import sym_sorted
    return [term_of(x) for x in sym_sorted(it, [SV(t) for t in ts], lambda x: x, False)]


class Relational(FunctionContract):
    tier = "T2"
    min_obligations = 2
    unroll_limit = 60
    expect_raise = ("ValueError",)
    crosscheck = False          # the result of this contract is a relation between runs, not a value to compare with CPython's

    def __init__(self, name):
        self.name = name
        self.is_part = name in PARTITIONERS
        self.target = (PARTITIONERS if self.is_part else PACKERS)[name]

    def shapes(self, level):
        nmax = 3 if level == "quick" else 4
        out = []
        for n in range(1, nmax + 1):
            for k in ((1, 2, 3) if self.is_part else (None,)):
                out.append((n, k))
        return out

    def shape_text(self, s):
        return f"n={s[0]}" + (f" numbins={s[1]}" if s[1] is not None else "")

    def make_args(self, it, shape):
        n, k = shape
        self._shape = shape
        xs = [ItemV(z3.Const(f"x{i}", L.Item)) for i in range(n)]
        for x in xs:
            it.assume(L.val(x.t) >= 0)
        self._xs = xs
        cls = it.get_function("prtpy/binners.py::BinnerKeepingContents")
        self._cls = cls
        binner = it.instantiate(cls, [VALUEOF], {})
        if self.is_part:
            self._param = k
            return {"binner": binner, "numbins": k, "items": PList(list(xs))}
        B = z3.Real("binsize")
        it.assume(B > 0)
        if self.name in ("cover_decreasing", "twothirds", "threequarters"):
            for x in xs:
                it.assume(L.val(x.t) > 0)
        self._param = SV(B)
        return {"binner": binner, "binsize": SV(B), "items": PList(list(xs))}

    def post(self, c, kind, res):
        it = c.it
        f = it.get_function(self.target)
        if kind == "raise":
            return []
        s0 = sums_of(it, res)
        out = self.direct_posts(it, res, s0)
        # --- sums-only manager gives the same sums (C06: a cheaper output type never changes the answer)
        scls = it.get_function("prtpy/binners.py::BinnerKeepingSums")
        try:
            r1 = it.call(f, [it.instantiate(scls, [VALUEOF], {}), self._param, PList(list(self._xs))])
            s1 = sums_of(it, r1)
            out.append(("C06:sums-only-manager-gives-the-same-sums", z3.And([z3.BoolVal(len(s0) == len(s1))] + [a == b for a, b in zip(s0, s1)])))
        except RaiseSig:
            out.append(("C06:sums-only-manager-gives-the-same-sums", z3.BoolVal(False)))
        # --- scaling values (and bin size) by c scales the sums by c (C18)
        for cfac in (2, 7):
            b2 = it.instantiate(self._cls, [scaled_valueof(cfac)], {})
            p2 = self._param if self.is_part else SV(cfac * term_of(self._param))
            try:
                r2 = it.call(f, [b2, p2, PList(list(self._xs))])
                s2 = sums_of(it, r2)
                out.append((f"C18:scaling-by-{cfac}-scales-the-sums", z3.And([z3.BoolVal(len(s0) == len(s2))] + [cfac * a == b for a, b in zip(s0, s2)])))
            except RaiseSig:
                out.append((f"C18:scaling-by-{cfac}-scales-the-sums", z3.BoolVal(False)))
        # --- reordering the input does not change the multiset of sums, for the algorithms that sort their input (C18)
        if self.name in SORTING and len(self._xs) >= 2:
            ss0 = sorted_terms(it, s0)
            for perm in list(itertools.permutations(range(len(self._xs))))[1:4]:
                try:
                    r3 = it.call(f, [it.instantiate(self._cls, [VALUEOF], {}), self._param, PList([self._xs[i] for i in perm])])
                    s3 = sorted_terms(it, sums_of(it, r3))
                    out.append(("C18:reordering-keeps-the-multiset-of-sums", z3.And([z3.BoolVal(len(ss0) == len(s3))] + [a == b for a, b in zip(ss0, s3)])))
                except RaiseSig:
                    out.append(("C18:reordering-keeps-the-multiset-of-sums", z3.BoolVal(False)))
        return out


    def direct_posts(self, it, res, s0):
        """the property's own postconditions at this shape (they are what the T1 contracts prove unbounded; here they come with a concrete,
        replayable counter-model when they fail)"""
        from .exact import same_multiset
        out = []
        lists = [[x for x in l.elems] for l in res[1].elems] if isinstance(res, tuple) else None
        vals = lambda l: [L.val(x.t) for x in l]
        if lists is None:
            return out
        placed = [x.t for l in lists for x in l]
        xs = [x.t for x in self._xs]
        wf = z3.And([z3.BoolVal(len(s0) == len(lists))] + [s == sum(vals(l), z3.RealVal(0)) for s, l in zip(s0, lists)])
        out.append(("C06:sums-describe-the-bins", wf))
        if self.is_part:
            k = self._shape[1]
            out.append(("C01:numbins-bins-holding-every-item-exactly-once", z3.And(z3.BoolVal(len(s0) == k and len(placed) == len(xs)), same_multiset(placed, xs) if len(placed) == len(xs) else z3.BoolVal(False))))
            if s0 and xs:
                biggest = xs and __import__("contracts.objectives", fromlist=["zmax"]).zmax([L.val(x) for x in xs])
                mx, mn = __import__("contracts.objectives", fromlist=["zmax"]).zmax(s0), __import__("contracts.objectives", fromlist=["zmin"]).zmin(s0)
                out.append(("C08:gap<=largest-item", mx - mn <= biggest))
        elif self.name in ("ff", "ffd", "bf", "bfd"):
            B = term_of(self._param)
            out.append(("C03:feasible-packing-of-exactly-the-items", z3.And(z3.And([s <= B for s in s0] or [z3.BoolVal(True)]), z3.BoolVal(len(placed) == len(xs) and all(len(l) >= 1 for l in lists)),
                                                                           same_multiset(placed, xs) if len(placed) == len(xs) else z3.BoolVal(False))))
            out.append(("C09:any-fit", z3.And([s0[a] + L.val(lists[b][0].t) > B for a in range(len(s0)) for b in range(a + 1, len(s0)) if lists[b]] or [z3.BoolVal(True)])))
        else:
            B = term_of(self._param)
            used_once = len(set(str(p) for p in placed)) == len(placed)
            total = sum([L.val(x) for x in xs], z3.RealVal(0))
            out.append(("C05:valid-cover-wasting-less-than-one-bin", z3.And(z3.And([s >= B for s in s0] or [z3.BoolVal(True)]), total - sum(s0, z3.RealVal(0)) < B,
                                                                           z3.Or([z3.And([p == xs[sg[i]] for i, p in enumerate(placed)]) for sg in itertools.permutations(range(len(xs)), len(placed))] or [z3.BoolVal(True)]) if len(placed) <= len(xs) else z3.BoolVal(False))))
        return out

    # ---- replay of a counter-model on the real code: the relations are re-evaluated on two REAL executions
    def witness(self, it, model, args):
        from pyvc.concrete import Concretizer, jsonable
        cz = Concretizer(model)
        return jsonable({"name": self.name, "values": [cz(SV(L.val(x.t))) for x in self._xs],
                         "param": cz(self._param) if not isinstance(self._param, int) else self._param, "predicted": None})

    def real(self, w):
        import prtpy, itertools
        from pyvc.concrete import unjson
        w = unjson(w)
        fn = self.real_fn()
        vals, p = list(w["values"]), w["param"]
        names = [f"i{k}" for k in range(len(vals))]

        def run(values, param, order=None, outputtype=prtpy.out.PartitionAndSumsTuple):
            d = dict(zip(names, values))
            keys = names if order is None else [names[i] for i in order]
            call = prtpy.partition if self.is_part else prtpy.pack
            kw = {"numbins": param} if self.is_part else {"binsize": param}
            try:
                r = call(algorithm=fn, items=keys, valueof=d.__getitem__, outputtype=outputtype, **kw)
            except ValueError:
                return "ValueError"
            return [float(x) for x in (r[0] if outputtype is prtpy.out.PartitionAndSumsTuple else r)]
        base = run(vals, p)
        direct = self.real_direct(fn, names, vals, p)
        close = lambda a, b: a == b if isinstance(a, str) or isinstance(b, str) else len(a) == len(b) and all(abs(x - y) <= 1e-9 * max(1, abs(x)) for x, y in zip(a, b))
        rel = {"sums-only-manager": close(base, run(vals, p, outputtype=prtpy.out.Sums))}
        rel.update(direct)
        for c in (2, 7):
            sc = run([c * v for v in vals], p if self.is_part else c * p)
            rel[f"scaling-by-{c}"] = close(sc, base if isinstance(base, str) else [c * x for x in base])
        if self.name in SORTING and not isinstance(base, str):
            for perm in list(itertools.permutations(range(len(vals))))[1:4]:
                rel["reordering"] = rel.get("reordering", True) and close(sorted(run(vals, p, order=perm)), sorted(base))
        return rel

    def real_direct(self, fn, names, vals, p):
        """the direct postconditions evaluated on one real execution"""
        import prtpy
        from collections import Counter
        d = dict(zip(names, vals))
        call = prtpy.partition if self.is_part else prtpy.pack
        kw = {"numbins": p} if self.is_part else {"binsize": p}
        try:
            sums, lists = call(algorithm=fn, items=names, valueof=d.__getitem__, outputtype=prtpy.out.PartitionAndSumsTuple, **kw)
        except ValueError:
            return {}
        sums = [float(x) for x in sums]
        tol = 1e-9
        out = {"wf": all(abs(s - sum(float(d[x]) for x in l)) <= tol * max(1, abs(s)) for s, l in zip(sums, lists)) and len(sums) == len(lists)}
        placed = Counter(x for l in lists for x in l)
        if self.is_part:
            out["partition"] = len(sums) == p and placed == Counter(names)
            out["gap"] = (max(sums) - min(sums) <= max(float(v) for v in vals) + tol) if sums and vals else True
        elif self.name in ("ff", "ffd", "bf", "bfd"):
            out["feasible"] = all(s <= float(p) + tol for s in sums) and placed == Counter(names) and all(len(l) >= 1 for l in lists)
            out["any-fit"] = all(sums[a] + float(d[lists[b][0]]) > float(p) - tol for a in range(len(sums)) for b in range(a + 1, len(sums)))
        else:
            out["cover"] = all(s >= float(p) - tol for s in sums) and all(c <= 1 for c in placed.values()) and sum(float(v) for v in vals) - sum(sums) < float(p) + tol
        return out

    def real_fn(self):
        import importlib
        path, fn = self.target.split("::")
        return getattr(importlib.import_module(path[:-3].replace("/", ".")), fn)

    def confirm(self, w, real):
        return isinstance(real, dict) and not all(real.values())


CONTRACTS = {f"rel_{n}": Relational(n) for n in list(PARTITIONERS) + list(PACKERS)}
globals().update(CONTRACTS)
ALL = [("contracts.relational", n) for n in CONTRACTS]
