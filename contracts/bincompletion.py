"""contract: prtpy/packing/bin_completion.py::bin_completion with its helpers in bin_completion_utils.py  (T2, C03 + C04)
The REAL search (completions, dominance test, branch queue, pruning) is executed on n symbolic integer items, every path; the result must be a
feasible packing of exactly the non-zero items (C03) using no more bins than ANY of the Bell(n) set partitions that is feasible (C04)."""
import itertools
from .common import *
from .exact import same_multiset


def set_partitions(n):
    def rec(i, blocks):
        if i == n:
            yield [list(b) for b in blocks]
            return
        for b in blocks:
            b.append(i)
            yield from rec(i + 1, blocks)
            b.pop()
        blocks.append([i])
        yield from rec(i + 1, blocks)
        blocks.pop()
    yield from rec(0, [])


class BinCompletion(FunctionContract):
    target = "prtpy/packing/bin_completion.py::bin_completion"
    tier = "T2"
    min_obligations = 4
    unroll_limit = 300
    timeout_ms = 60000
    expect_raise = ()

    def shapes(self, level):
        return [(n, z) for n in ((1, 2, 3) if level == "quick" else (1, 2, 3, 4)) for z in (False, True) if not (z and n > 3)]

    def shape_text(self, s):
        return f"n={s[0]} integer items, 1<=v<=binsize" + (" (first item may be zero)" if s[1] else "")

    def make_args(self, it, shape):
        n, z = shape
        self._shape = shape
        B = z3.Int("binsize")
        vs = [z3.Int(f"v{i}") for i in range(n)]
        it.assume(B >= 1)
        for i, v in enumerate(vs):
            it.assume(z3.And(v >= (0 if (z and i == 0) else 1), v <= B))
        self._vs, self._B = vs, B
        cls = it.get_function("prtpy/binners.py::BinnerKeepingContents")
        ident = Builtin("binner.valueof", lambda it, a, k: a[0])       # plain numbers: the items are their own values (known finding K3 covers names)
        return {"binner": it.instantiate(cls, [ident], {}), "binsize": SV(B), "items": PList([SV(v) for v in vs])}

    def post(self, c, kind, res):
        if kind != "return":
            return []
        n, z = self._shape
        vs, B = self._vs, self._B
        if not (isinstance(res, tuple) and len(res) == 2 and isinstance(res[1], PList)):
            return [("C03:returns-bins", z3.BoolVal(False))]
        sums = [term_of(s) for s in res[0].tolist()]
        lists = [[term_of(x) for x in l.elems] for l in res[1].elems]
        placed = [x for l in lists for x in l]
        out = [("C03:every-sum<=binsize", z3.And([s <= B for s in sums] or [z3.BoolVal(True)])),
               ("C06:sums-describe-the-bins", z3.And([z3.BoolVal(len(sums) == len(lists))] + [s == sum(l, z3.IntVal(0)) for s, l in zip(sums, lists)])),
               ("C03:no-empty-bin", z3.BoolVal(all(len(l) >= 1 for l in lists)))]
        # conservation: the placed values are the input values, zero-valued items possibly omitted
        alts = []
        if len(placed) == n:
            alts.append(same_multiset(placed, vs))
        if z and len(placed) == n - 1:
            alts.append(z3.And(vs[0] == 0, same_multiset(placed, vs[1:])))
        out.append(("C03:every-item-exactly-once(zeros-may-be-omitted)", z3.Or(alts) if alts else z3.BoolVal(False)))
        # minimality: no feasible set partition of the non-zero items has fewer blocks
        goal = []
        nb = len(sums)
        idx = list(range(n))
        for P in set_partitions(n):
            feas = z3.And([sum([vs[i] for i in blk], z3.IntVal(0)) <= B for blk in P])
            if z:
                # a zero item can join any block: drop it from the count by allowing its own block to vanish
                k = len(P) - (1 if [0] in P else 0)
                goal.append(z3.Implies(z3.And(feas, vs[0] == 0), nb <= max(k, 0) if n > 1 else nb <= 1))
                goal.append(z3.Implies(z3.And(feas, vs[0] != 0), nb <= len(P)))
            else:
                goal.append(z3.Implies(feas, nb <= len(P)))
        out.append(("C04:no-feasible-packing-uses-fewer-bins", z3.And(goal)))
        return out

    def witness(self, it, model, args):
        from pyvc.concrete import Concretizer, jsonable
        cz = Concretizer(model)
        res = getattr(it, "last_result", None)
        pred = None
        try:
            pred = len(res[0].tolist())
        except Exception:
            pass
        return jsonable({"values": [cz(SV(v)) for v in self._vs], "binsize": cz(SV(self._B)), "predicted": pred})

    def real(self, w):
        import prtpy
        from pyvc.concrete import unjson
        w = unjson(w)
        return prtpy.pack(algorithm=target_fn("prtpy.packing.bin_completion", "bin_completion"), binsize=w["binsize"], items=list(w["values"]), outputtype=prtpy.out.BinCount)


class BinCompletionOversize(BinCompletion):
    """C19: an item larger than the bin size, at any position, makes bin_completion raise ValueError; nothing else does"""
    min_obligations = 1
    expect_raise = ("ValueError",)
    crosscheck = False

    def shapes(self, level):
        return [(n, False) for n in (1, 2, 3)]      # n = 4 (whole search, every path) takes over half an hour and adds nothing to the oversize scan

    def shape_text(self, s):
        return f"n={s[0]} integer items >= 0, any of them possibly larger than binsize"

    def make_args(self, it, shape):
        args = super().make_args(it, shape)
        # drop the v <= binsize requirement: rebuild the assumptions from scratch is not possible, so use fresh symbols
        n = shape[0]
        B = z3.Int("binsize_")
        vs = [z3.Int(f"u{i}") for i in range(n)]
        it.assume(B >= 1)
        for v in vs:
            it.assume(v >= 0)
        self._vs, self._B = vs, B
        args["binsize"] = SV(B)
        args["items"] = PList([SV(v) for v in vs])
        return args

    def post(self, c, kind, res):
        over = z3.Or([v > self._B for v in self._vs])
        if kind == "raise":
            return [("C19:ValueError-only-for-an-oversize-item", z3.And(z3.BoolVal(res.cls == "ValueError"), over))]
        return [("C19:returns-only-without-oversize-item", z3.Not(over))]


bin_completion = BinCompletion()
bin_completion_oversize = BinCompletionOversize()
ALL = [("contracts.bincompletion", "bin_completion")]


# ------------------------------------------------------------------------------------------------ helpers of bin_completion_utils.py (modular contracts)
def count(lst, w):
    return sum([z3.If(x == w, 1, 0) for x in lst], z3.IntVal(0))


class Helper(FunctionContract):
    tier = "T2"
    min_obligations = 1
    unroll_limit = 200
    crosscheck = False

    def ints(self, it, name, n, lo=0):
        xs = [z3.Int(f"{name}{i}") for i in range(n)]
        for x in xs:
            it.assume(x >= lo)
        return xs


class ListWithoutItems(Helper):
    """list_without_items(original, to_remove) is the multiset difference original - to_remove (one occurrence removed per occurrence)"""
    target = "prtpy/packing/bin_completion_utils.py::list_without_items"

    def shapes(self, level):
        m = 4 if level == "quick" else 5
        return [(a, b) for a in range(0, m + 1) for b in range(0, 4) if a + b <= m + 1]

    def shape_text(self, s):
        return f"len(original)={s[0]} len(to_remove)={s[1]}, all integer values"

    def make_args(self, it, shape):
        a, b = shape
        self._o, self._r = self.ints(it, "o", a), self.ints(it, "r", b)
        self._orig = PList([SV(x) for x in self._o])
        return {"original": self._orig, "to_remove": PList([SV(x) for x in self._r])}

    def post(self, c, kind, res):
        if kind != "return":
            return []
        out = [term_of(x) for x in res.elems]
        ws = self._o + self._r
        f = [count(out, w) == z3.If(count(self._o, w) >= count(self._r, w), count(self._o, w) - count(self._r, w), 0) for w in ws]
        return [("C03:multiset-difference(one-occurrence-per-occurrence)", z3.And(f + [z3.BoolVal(len(out) <= len(self._o))]) if f else z3.BoolVal(len(out) == 0)),
                ("C15:original-unmodified", z3.And([term_of(x) == y for x, y in zip(self._orig.elems, self._o)] + [z3.BoolVal(len(self._orig.elems) == len(self._o))]))]


class IsDominant(Helper):
    """is_dominant(l1, l2) (both sorted in descending order) <=> the elements of l2 can be distributed over |l1| bins whose capacities are the
    elements of l1.  The obligation F8 broke: dominance must respect multiplicities."""
    target = "prtpy/packing/bin_completion_utils.py::is_dominant"

    def shapes(self, level):
        m = 3
        return [(a, b) for a in range(0, m + 1) for b in range(0, m + 1)]

    def shape_text(self, s):
        return f"len(list1)={s[0]} len(list2)={s[1]}, positive integers, both sorted descending"

    def make_args(self, it, shape):
        a, b = shape
        self._a, self._b = self.ints(it, "a", a, 1), self.ints(it, "b", b, 1)
        for xs in (self._a, self._b):
            for p, q in zip(xs, xs[1:]):
                it.assume(p >= q)
        return {"list1": PList([SV(x) for x in self._a]), "list2": PList([SV(x) for x in self._b])}

    def post(self, c, kind, res):
        if kind != "return":
            return []
        A, B = self._a, self._b
        alts = []
        if not B:
            spec = z3.BoolVal(True)
        elif not A:
            spec = z3.BoolVal(False)
        else:
            for assign in itertools.product(range(len(A)), repeat=len(B)):
                alts.append(z3.And([sum([B[i] for i in range(len(B)) if assign[i] == j], z3.IntVal(0)) <= A[j] for j in range(len(A))]))
            spec = z3.Or(alts)
        r = res if isinstance(res, bool) else term_of(res)
        return [("C04:dominance-iff-list2-fits-into-bins-of-sizes-list1", (z3.BoolVal(r) if isinstance(r, bool) else r) == spec)]


class FindBinCompletions(Helper):
    """every completion returned for the bin holding x is a sub-multiset of the remaining items that fits next to x, and every feasible
    subset of the items is dominated by some returned completion (so discarding the others loses no optimal packing)"""
    target = "prtpy/packing/bin_completion_utils.py::find_bin_completions"
    timeout_ms = 60000

    def shapes(self, level):
        return [1, 2, 3, 4]

    def shape_text(self, n):
        return f"{n} remaining items sorted descending, positive integers <= binsize; x and binsize symbolic"

    def make_args(self, it, n):
        self._n = n
        B, x = z3.Int("binsize"), z3.Int("x")
        vs = self.ints(it, "v", n, 1)
        it.assume(z3.And(B >= 1, x >= 1, x <= B))
        for v in vs:
            it.assume(z3.And(v <= x, v <= B))          # items are taken in descending order: the remaining ones are not larger than x
        for p, q in zip(vs, vs[1:]):
            it.assume(p >= q)
        self._vs, self._B, self._x = vs, B, x
        return {"x": SV(x), "items": PList([SV(v) for v in vs]), "binsize": SV(B)}

    def post(self, c, kind, res):
        if kind != "return":
            return []
        vs, B, x, n = self._vs, self._B, self._x, self._n
        comps = [[term_of(e) for e in cc.elems] for cc in res.elems]
        sound = []
        for cc in comps:
            sound.append(x + sum(cc, z3.IntVal(0)) <= B)
            sound.append(z3.And([count(cc, w) <= count(vs, w) for w in cc] or [z3.BoolVal(True)]))
        out = [("C03:every-completion-is-a-sub-multiset-of-the-items-that-fits-next-to-x", z3.And(sound) if sound else z3.BoolVal(True))]
        # completeness up to dominance: each feasible subset S fits into the bins |c| of some returned completion c (S <= c in the dominance order)
        goal = []
        for r in range(1, n + 1):
            for S in itertools.combinations(range(n), r):
                feas = x + sum([vs[i] for i in S], z3.IntVal(0)) <= B
                doms = []
                for cc in comps:
                    if not cc:
                        continue
                    alts = []
                    for assign in itertools.product(range(len(cc)), repeat=len(S)):
                        alts.append(z3.And([sum([vs[S[i]] for i in range(len(S)) if assign[i] == j], z3.IntVal(0)) <= cc[j] for j in range(len(cc))]))
                    doms.append(z3.Or(alts))
                goal.append(z3.Implies(feas, z3.Or(doms) if doms else z3.BoolVal(False)))
        out.append(("C04:every-feasible-subset-is-dominated-by-a-returned-completion", z3.And(goal) if goal else z3.BoolVal(True)))
        return out


list_without_items = ListWithoutItems()
is_dominant = IsDominant()
find_bin_completions = FindBinCompletions()
HELPERS = [("contracts.bincompletion", n) for n in ("list_without_items", "is_dominant", "find_bin_completions")]
