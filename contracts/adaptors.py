"""contracts: prtpy/partitioning/adaptors.py::partition, prtpy/packing/adaptors.py::pack, prtpy/outputtypes.py  (T2)

C07 (relational): the REAL adaptor is executed on the same values presented as a plain list, a numpy array, a dict from opaque names to
values, and a list of names with a value function; the sums must coincide and the named result must be a partition of the names whose values
reproduce the sums.   C06: every sums-based output type requested through the adaptor equals what its definition gives on the sums of the full
partition output of the same call."""
import itertools
from .common import *
from .binners import VALUEOF
from .exact import same_multiset
from .objectives import zmin, zmax

ALGOS = {"greedy": ("partition", "prtpy/partitioning/greedy.py::greedy"), "roundrobin": ("partition", "prtpy/partitioning/roundrobin.py::roundrobin"),
         "ff": ("pack", "prtpy/packing/first_fit.py::online"), "bfd": ("pack", "prtpy/packing/best_fit.py::decreasing"),
         "twothirds": ("pack", "prtpy/packing/cflz_covering.py::twothirds"), "threequarters": ("pack", "prtpy/packing/cflz_covering.py::threequarters")}
COVERS = ("twothirds", "threequarters")     # a cover may leave items out
SUMS_TYPES = ["Sums", "LargestSum", "SmallestSum", "ExtremeSums", "SortedSums", "Difference", "BinCount"]


class Presentation(FunctionContract):
    tier = "T2"
    min_obligations = 4
    unroll_limit = 80
    crosscheck = False
    expect_raise = ("ValueError",)

    def __init__(self, algo):
        self.algo = algo
        self.kind, self.algo_target = ALGOS[algo]
        self.target = "prtpy/partitioning/adaptors.py::partition" if self.kind == "partition" else "prtpy/packing/adaptors.py::pack"

    def shapes(self, level):
        ns = (1, 2, 3) if level == "quick" else (1, 2, 3, 4)
        return [(n, k) for n in ns for k in ((1, 2, 3) if self.kind == "partition" else (None,))]

    def shape_text(self, s):
        return f"{self.algo}: n={s[0]}" + (f" numbins={s[1]}" if s[1] else "")

    def make_args(self, it, shape):
        n, k = shape
        self._shape = shape
        self._names = [ItemV(z3.Const(f"name{i}", L.Item)) for i in range(n)]
        self._vals = [z3.Real(f"v{i}") for i in range(n)]
        for x, v in zip(self._names, self._vals):
            it.assume(z3.And(L.val(x.t) == v, v > 0 if self.algo in COVERS else v >= 0))      # zero-valued items included
        if n > 1:
            it.assume(z3.Distinct([x.t for x in self._names]))       # names are distinct keys
        self._algo = it.get_function(self.algo_target)
        out = it.load_module("prtpy.outputtypes")
        self._out = out
        self._B = None
        args = {"algorithm": self._algo, "items": PList([SV(v) for v in self._vals]), "outputtype": it.force(out.attrs["PartitionAndSumsTuple"])}
        if self.kind == "partition":
            args["numbins"] = k
        else:
            self._B = z3.Real("binsize")
            it.assume(self._B > 0)
            args["binsize"] = SV(self._B)
        return args

    def call(self, it, items, valueof=None, outputtype="PartitionAndSumsTuple"):
        f = it.get_function(self.target)
        kw = {"algorithm": self._algo, "items": items, "outputtype": it.force(self._out.attrs[outputtype])}
        if valueof is not None:
            kw["valueof"] = valueof
        if self.kind == "partition":
            kw["numbins"] = self._shape[1]
        else:
            kw["binsize"] = SV(self._B)
        return it.call(f, [], kw)

    def post(self, c, kind, res):
        it = c.it
        if kind == "raise":
            return []
        sums0 = [term_of(x) for x in it.iterate(res[0])]
        lists0 = [[term_of(x) for x in l.elems] for l in res[1].elems]
        out = [("C06:sums-describe-the-bins", z3.And([z3.BoolVal(len(sums0) == len(lists0))] + [s == sum(l, z3.RealVal(0)) for s, l in zip(sums0, lists0)]))]
        eqs = lambda a, b: z3.And([z3.BoolVal(len(a) == len(b))] + [x == y for x, y in zip(a, b)])
        # ---- the same values as a numpy array, as a dict name -> value, as names + valueof
        try:
            r = self.call(it, NdArr([SV(v) for v in self._vals]))
            out.append(("C07:numpy-array-gives-the-same-sums", eqs(sums0, [term_of(x) for x in it.iterate(r[0])])))
            d = PDict()
            d.keys, d.vals = list(self._names), [SV(v) for v in self._vals]
            decoy = PDict()           # a dict whose own values are NOT the item values, with an explicit value function: the function decides
            decoy.keys, decoy.vals = list(self._names), [SV(z3.Real(f"decoy{i}")) for i in range(len(self._names))]
            for label, r in (("dict", self.call(it, d)), ("names+valueof", self.call(it, PList(list(self._names)), valueof=VALUEOF)),
                             ("dict+explicit-valueof", self.call(it, decoy, valueof=VALUEOF))):
                s1 = [term_of(x) for x in it.iterate(r[0])]
                l1 = [[x for x in l.elems] for l in r[1].elems]
                placed = [x for l in l1 for x in l]
                out.append((f"C07:{label}-gives-the-same-sums", eqs(sums0, s1)))
                named_ok = all(isinstance(x, ItemV) for x in placed) and len(placed) == len(self._names)
                out.append((f"C07:{label}-result-is-a-partition-of-the-names-whose-values-give-the-sums",
                            z3.And(z3.BoolVal(named_ok) if self.algo not in COVERS else z3.BoolVal(all(isinstance(x, ItemV) for x in placed)),
                                   same_multiset([x.t for x in placed], [x.t for x in self._names]) if named_ok and self.algo not in COVERS else z3.BoolVal(True),
                                   z3.And([s == sum([L.val(x.t) for x in l], z3.RealVal(0)) for s, l in zip(s1, l1)] or [z3.BoolVal(True)]))))
        except RaiseSig as e:
            out.append(("C07:every-presentation-is-accepted", z3.BoolVal(False)))
        # ---- every sums-based output type equals its definition on the sums of the full output (C06)
        for ot in SUMS_TYPES:
            try:
                r = self.call(it, PList([SV(v) for v in self._vals]), outputtype=ot)
            except RaiseSig as e:
                # min()/max() of no bins at all raises in the definition as well: consistent
                out.append((f"C06:outputtype-{ot}-equals-its-definition-on-the-full-output",
                            z3.BoolVal(not sums0 and e.exc.cls == "ValueError" and ot in ("LargestSum", "SmallestSum", "ExtremeSums", "Difference"))))
                continue
            if ot == "Sums":
                f = eqs(sums0, [term_of(x) for x in it.iterate(r)])
            elif ot == "SortedSums":
                rs = [term_of(x) for x in it.iterate(r)]
                f = z3.And(same_multiset(rs, sums0), z3.And([a <= b for a, b in zip(rs, rs[1:])] or [z3.BoolVal(True)]))
            elif ot == "BinCount":
                f = z3.BoolVal(r == len(sums0)) if isinstance(r, int) else term_of(r) == len(sums0)
            elif not sums0:
                f = z3.BoolVal(True)
            elif ot == "LargestSum":
                f = term_of(r) == zmax(sums0)
            elif ot == "SmallestSum":
                f = term_of(r) == zmin(sums0)
            elif ot == "Difference":
                f = term_of(r) == zmax(sums0) - zmin(sums0)
            else:
                f = z3.And(term_of(r[0]) == zmin(sums0), term_of(r[1]) == zmax(sums0))
            out.append((f"C06:outputtype-{ot}-equals-its-definition-on-the-full-output", f))
        return out


CONTRACTS = {f"pres_{a}": Presentation(a) for a in ALGOS}
globals().update(CONTRACTS)
ALL = [("contracts.adaptors", n) for n in CONTRACTS]
