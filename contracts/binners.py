"""contracts: prtpy/binners.py -- both shipped managers, every documented operation (C16; C06/C01 rest on the class invariant wf).

T2: the REAL method bodies are executed on a concrete-shaped heap (numpy buffers with views, outer list, inner list objects with
identity) holding symbolic items, from an ARBITRARY well-formed state of every shape up to the bound, next to a second, separate live array
(the pool).  Each operation must: keep wf, have exactly its documented effect, write nothing reachable from an argument documented as
unmodified, leave the other live array untouched, and share no buffer / outer list / inner list between distinct live arrays.
Induction over operation histories (hand-over discipline) is the meta-step A7."""
import itertools
from .common import *

VALUEOF = Builtin("binner.valueof", lambda it, a, k: SV(L.val(a[0].t)) if isinstance(a[0], ItemV) else (_ for _ in ()).throw(Unsupported("valueof of a non-item")))


def shapes_for(level):
    """tuples of per-bin item counts"""
    out = [()] if level == "thorough" else []
    maxnb = 3 if level == "quick" else 4
    for nb in range(1, maxnb + 1):
        if nb <= 2:
            out += list(itertools.product(range(3), repeat=nb))
        else:
            out += [tuple((i + s) % 3 for i in range(nb)) for s in range(3)] + [(0,) * nb, (1,) * nb]
    return out


class State:
    """one live bins-array of manager `kind` with symbolic contents; ghost = the contents the sums stand for"""
    def __init__(self, it, kind, counts, tag):
        self.kind = kind
        self.ghost = [[ItemV(z3.Const(f"{tag}_{j}_{t}", L.Item)) for t in range(c)] for j, c in enumerate(counts)]
        sums = [SV(z3.Real(f"{tag}_s{j}")) for j in range(len(counts))]
        for s, g in zip(sums, self.ghost):
            it.assume(s.t == sum([L.val(x.t) for x in g], z3.RealVal(0)))        # wf: the arbitrary start state is well-formed
        self.arr = NdArr(list(sums))
        if kind == "Contents":
            self.lists = PList([PList(list(g)) for g in self.ghost])
            self.value = (self.arr, self.lists)
        else:
            self.lists = None
            self.value = self.arr


def view(kind, bins):
    """(sums terms, contents as lists of item terms or None)"""
    if kind == "Contents":
        if not (isinstance(bins, tuple) and len(bins) == 2 and isinstance(bins[1], PList)):
            raise Unsupported("contents manager: bins-array is not a (sums, lists) pair")
        sums, lists = bins
        cont = [[x.t for x in l.elems] for l in lists.elems]
    else:
        sums, cont = bins, None
    if isinstance(sums, NdArr):
        st = [term_of(x) for x in sums.tolist()]
    elif isinstance(sums, PList):
        st = [term_of(x) for x in sums.elems]
    else:
        raise Unsupported("sums are not an array")
    return st, cont


def eq_view(v1, v2):
    """formula: two views are equal (same shape is decided concretely)"""
    s1, c1 = v1
    s2, c2 = v2
    if len(s1) != len(s2):
        return z3.BoolVal(False)
    f = [a == b for a, b in zip(s1, s2)]
    if c1 is not None and c2 is not None:
        if len(c1) != len(c2):
            return z3.BoolVal(False)
        for a, b in zip(c1, c2):
            if len(a) != len(b):
                return z3.BoolVal(False)
            f += [x == y for x, y in zip(a, b)]
    return z3.And(f) if f else z3.BoolVal(True)


def wf_view(v, ghost):
    """sums equal the totals of the (ghost or recorded) contents; recorded contents equal the ghost"""
    s, c = v
    if len(s) != len(ghost):
        return z3.BoolVal(False)
    f = [a == sum([L.val(x) for x in g], z3.RealVal(0)) for a, g in zip(s, ghost)]
    if c is not None:
        if len(c) != len(ghost) or any(len(a) != len(g) for a, g in zip(c, ghost)):
            return z3.BoolVal(False)
        f += [x == y for a, g in zip(c, ghost) for x, y in zip(a, g)]
    return z3.And(f) if f else z3.BoolVal(True)


def objects_of(kind, bins):
    """identities of everything mutable reachable from a bins-array: buffer, outer list, inner lists"""
    if kind == "Contents":
        sums, lists = bins
        return [("buffer", sums.buf if isinstance(sums, NdArr) else sums), ("outer", lists)] + [("inner", l) for l in lists.elems]
    return [("buffer", bins.buf if isinstance(bins, NdArr) else bins)]


def separated(kind, b1, b2):
    o1, o2 = objects_of(kind, b1), objects_of(kind, b2)
    if kind == "Contents":
        inner = [o for t, o in o1 if t == "inner"]
        if len({id(x) for x in inner}) != len(inner):
            return False
    if b1 is b2:
        return True
    return not ({id(o) for _, o in o1} & {id(o) for _, o in o2})


def buffers_overlap(a, b):
    return isinstance(a, NdArr) and isinstance(b, NdArr) and a.buf is b.buf and not (a.off + a.n <= b.off or b.off + b.n <= a.off)


class BinnerOp(FunctionContract):
    tier = "T2"
    min_obligations = 1

    def __init__(self, kind, op):
        self.kind, self.op = kind, op
        self.cls = "BinnerKeeping" + kind
        owner = self.cls            # resolved through the MRO, so an inherited method (add_empty_bins) and an override are both found
        self.target = f"prtpy/binners.py::{owner}.{op}"
        self.expect_raise = ("NotImplementedError",) if (kind == "Sums" and op == "numitems") else ()

    def shapes(self, level):
        base = shapes_for(level)
        op = self.op
        if op == "new_bins":
            return [("k", k) for k in range(0, 4 if level == "quick" else 5)]
        if op in ("add_empty_bins",):
            return [(c, m) for c in base for m in (0, 1, 2)]
        if op == "remove_bins":
            return [(c, m) for c in base for m in range(0, len(c) + 1)]
        if op in ("concatenate_bins", "combine_bins"):
            small = [c for c in base if len(c) <= 2] + [(0, 1, 2)]
            if op == "combine_bins":
                small = [c for c in small if len(c) >= 1]
            return [(c, d) for c in small for d in small]
        if op in ("add_item_to_bin", "numitems"):
            base = [c for c in base if len(c) >= 1]          # these take a bin index: there is none in an array without bins
        return [(c, None) for c in base]

    def shape_text(self, shape):
        return f"{self.kind}:{self.op} bins(item counts)={shape[0]} param={shape[1]}"

    def make_args(self, it, shape):
        self._shape = shape
        cls = it.get_function(f"prtpy/binners.py::{self.cls}")
        me = it.instantiate(cls, [VALUEOF], {})
        self._me = me
        op, kind = self.op, self.kind
        # the pool: `other` is a second live array that no operation on the first may touch
        self._other = State(it, kind, (1, 0), "o")
        self._other_view0 = view(kind, self._other.value)
        if op == "new_bins":
            return {"__self__": me, "numbins": shape[1]}
        a = State(it, kind, shape[0], "a")
        self._a, self._a_view0 = a, view(kind, a.value)
        args = {"__self__": me, "bins": a.value}
        if op == "add_item_to_bin":
            j = z3.Int("j")
            it.assume(z3.And(j >= -len(shape[0]), j < len(shape[0])))
            self._x, self._j = ItemV(z3.Const("x", L.Item)), j
            args.update(item=self._x, bin_index=SV(j))
        elif op in ("add_empty_bins", "remove_bins"):
            args.update(numbins=shape[1])
        elif op in ("concatenate_bins", "combine_bins", "all_combinations"):
            b = State(it, kind, shape[1] if op != "all_combinations" else shape[0], "b")
            self._b, self._b_view0 = b, view(kind, b.value)
            args = {"__self__": me, "bins1": a.value, "bins2": b.value}
            if op == "combine_bins":
                i, j = z3.Int("i"), z3.Int("j")
                it.assume(z3.And(i >= -len(shape[0]), i < len(shape[0]), j >= -len(shape[1]), j < len(shape[1])))
                self._i, self._j = i, j
                args = {"__self__": me, "bins1": a.value, "ibin1": SV(i), "bins2": b.value, "ibin2": SV(j)}
        elif op == "numitems":
            j = z3.Int("j")
            it.assume(z3.And(j >= -len(shape[0]), j < len(shape[0])))
            self._j = j
            args.update(bin_index=SV(j))
        return args

    # ---- helpers for post
    def _frame(self, out):
        """the other live array is untouched and still separated"""
        out.append(("C16:other-live-array-untouched", eq_view(view(self.kind, self._other.value), self._other_view0)))

    def _idx(self, j, n):
        return z3.If(j >= 0, j, j + n)

    def post(self, c, kind_, res):
        kind, op, it = self.kind, self.op, c.it
        out = []
        if kind_ == "raise":
            if kind == "Sums" and op == "numitems":
                return [("C19:sums-only-manager-refuses-to-count-items", z3.BoolVal(res.cls == "NotImplementedError"))]
            return []
        if kind == "Sums" and op == "numitems":
            return [("C19:sums-only-manager-refuses-to-count-items", z3.BoolVal(False))]
        self._frame(out)
        if op == "new_bins":
            k = self._shape[1]
            v = view(kind, res)
            out.append(("C16:new-bins-are-empty", z3.And(z3.BoolVal(len(v[0]) == k), wf_view(v, [[] for _ in range(k)]))))
            out.append(("C16:fresh-and-inner-lists-distinct", z3.BoolVal(separated(kind, res, res) and separated(kind, res, self._other.value))))
            if k >= 1:
                # two-step history: an item added to a freshly created array gives exactly its value as the sum of that bin
                x = ItemV(z3.Const("x", L.Item))
                add = it.get_function(f"prtpy/binners.py::{self.cls}.add_item_to_bin")
                it.call(add, [self._me, res, x, k - 1])
                out.append(("C16:new-then-add:sum-is-exactly-the-item's-value", wf_view(view(kind, res), [[] for _ in range(k - 1)] + [[x.t]])))
            return out
        a, g = self._a, self._a.ghost
        gt = [[x.t for x in l] for l in g]
        n = len(gt)
        if op == "copy_bins":
            out.append(("C16:copy-equals-original", z3.And(eq_view(view(kind, res), self._a_view0), wf_view(view(kind, res), gt))))
            out.append(("C16:original-unmodified", eq_view(view(kind, a.value), self._a_view0)))
            out.append(("C16:copy-shares-nothing-with-original", z3.BoolVal(res is not a.value and separated(kind, res, a.value))))
            # independence in both directions, by actually mutating one and looking at the other
            x = ItemV(z3.Const("x", L.Item))
            if n >= 1:
                add = it.get_function(f"prtpy/binners.py::{self.cls}.add_item_to_bin")
                before = view(kind, a.value)
                it.call(add, [self._me, res, x, 0])
                out.append(("C16:mutating-the-copy-leaves-the-original", eq_view(view(kind, a.value), before)))
                before = view(kind, res)
                it.call(add, [self._me, a.value, x, n - 1])
                out.append(("C16:mutating-the-original-leaves-the-copy", eq_view(view(kind, res), before)))
            return out
        if op == "add_item_to_bin":
            jj = self._idx(self._j, n)
            new_g = None
            # the path fixed the index concretely (norm_index forks): find it
            m = None
            for cand in range(n):
                if it.check(jj != cand) == "unsat":
                    m = cand
            if m is None:
                return out + [("C16:index-decided", z3.BoolVal(False))]
            new_g = [l + ([self._x.t] if t == m else []) for t, l in enumerate(gt)]
            out.append(("C16:add-item:sum-and-contents-of-that-bin-only", wf_view(view(kind, a.value), new_g)))
            out.append(("C16:add-item:other-sums-unchanged", z3.And([view(kind, a.value)[0][t] == self._a_view0[0][t] for t in range(n) if t != m] or [z3.BoolVal(True)])))
            out.append(("C16:returns-the-same-array", z3.BoolVal(res is a.value)))
            return out
        if op == "add_empty_bins":
            m = self._shape[1]
            out.append(("C16:add-empty:old-bins-kept-new-bins-empty", wf_view(view(kind, res), gt + [[] for _ in range(m)])))
            out.append(("C16:argument-not-written-by-the-call", eq_view(view(kind, a.value), self._a_view0)))
            out.append(("C16:result-inner-lists-distinct+other-array-separate", z3.BoolVal(separated(kind, res, res) and separated(kind, res, self._other.value))))
            return out
        if op == "remove_bins":
            m = self._shape[1]
            out.append(("C16:remove:prefix-kept", wf_view(view(kind, res), gt[:n - m])))
            out.append(("C16:argument-not-written-by-the-call", eq_view(view(kind, a.value), self._a_view0)))
            out.append(("C16:result-separate-from-other-array", z3.BoolVal(separated(kind, res, self._other.value))))
            return out
        if op == "concatenate_bins":
            gb = [[x.t for x in l] for l in self._b.ghost]
            out.append(("C16:concatenate:bins1-then-bins2", wf_view(view(kind, res), gt + gb)))
            out.append(("C16:arguments-not-written-by-the-call", z3.And(eq_view(view(kind, a.value), self._a_view0), eq_view(view(kind, self._b.value), self._b_view0))))
            out.append(("C16:result-separate-from-other-array", z3.BoolVal(separated(kind, res, self._other.value))))
            return out
        if op == "combine_bins":
            gb = [[x.t for x in l] for l in self._b.ghost]
            ii, jj = self._idx(self._i, n), self._idx(self._j, len(gb))
            mi = next((k for k in range(n) if it.check(ii != k) == "unsat"), None)
            mj = next((k for k in range(len(gb)) if it.check(jj != k) == "unsat"), None)
            if mi is None or mj is None:
                return out + [("C16:index-decided", z3.BoolVal(False))]
            new_g = [l + (gb[mj] if t == mi else []) for t, l in enumerate(gt)]
            out.append(("C16:combine:bin-i-of-bins1-receives-bin-j-of-bins2", wf_view(view(kind, a.value), new_g)))
            out.append(("C16:bins2-unmodified", eq_view(view(kind, self._b.value), self._b_view0)))
            if kind == "Contents":
                out.append(("C16:bins1-and-bins2-still-share-no-list", z3.BoolVal(separated(kind, a.value, self._b.value))))
            return out
        if op == "sort_by_ascending_sum":
            v = view(kind, a.value)
            out.append(("C16:sort:sums-nondecreasing", z3.And([v[0][t] <= v[0][t + 1] for t in range(n - 1)] or [z3.BoolVal(True)])))
            # some permutation carries (sum, contents) pairs of the old array onto the new one
            alts = []
            for pi in itertools.permutations(range(n)):
                alts.append(wf_view(v, [gt[pi[t]] for t in range(n)]) if kind == "Contents" else
                            z3.And([v[0][t] == self._a_view0[0][pi[t]] for t in range(n)] or [z3.BoolVal(True)]))
            out.append(("C16:sort:sums-and-contents-permuted-together", z3.Or(alts) if alts else z3.BoolVal(True)))
            if kind == "Contents":
                out.append(("C16:inner-lists-still-distinct", z3.BoolVal(separated(kind, a.value, a.value))))
            return out
        if op == "sums":
            st = [term_of(x) for x in it.iterate(res)]
            out.append(("C06:sums()-reports-the-sums", z3.And(z3.BoolVal(len(st) == n), z3.And([p == q for p, q in zip(st, self._a_view0[0])] or [z3.BoolVal(True)]))))
            out.append(("C16:argument-unmodified", eq_view(view(kind, a.value), self._a_view0)))
            return out
        if op == "numbins":
            return out + [("C16:numbins", term_of(res) == n)]
        if op == "numitems":
            jj = self._idx(self._j, n)
            return out + [("C16:numitems", z3.And([z3.Implies(jj == t, term_of(res) == len(gt[t])) for t in range(n)]))]
        return out


CONTRACTS = {}
for _kind in ("Sums", "Contents"):
    for _op in ("new_bins", "copy_bins", "add_item_to_bin", "add_empty_bins", "remove_bins", "concatenate_bins", "sort_by_ascending_sum", "combine_bins",
                "sums", "numbins", "numitems"):
        _name = f"{_kind.lower()}_{_op}"
        CONTRACTS[_name] = BinnerOp(_kind, _op)
globals().update(CONTRACTS)
ALL = [("contracts.binners", n) for n in CONTRACTS]
