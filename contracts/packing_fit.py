"""contracts: prtpy/packing/first_fit.py, best_fit.py  (T1: unbounded, loop invariants; values are reals, so integers and exact fractions alike)"""
from .common import *


def fit_args(it):
    B = z3.Real("binsize")
    it.assume(B > 0)
    return {"binner": ABinner(), "binsize": SV(B), "items": item_seq(it, nonempty=False)}


def outer_facts(c, b, i, items, B):
    """the loop invariant of the item loop, as a list of named clauses, about bins-array b after i items"""
    j, a, bb, t = (L.fresh(n, L.IntS) for n in "jabt")
    return [("numbins=nb", z3.And(c.t("numbins") == b.nb, b.nb >= 1)),
            ("conservation", b.G == L.rbag(items.arr, items.lo, items.lo + i)),
            ("wf", b.wf()),
            ("nothing-removed", b.REM == L.EMPTY),
            ("C03:feasible", forall_bins(b, lambda j: z3.And(0 <= b.S[j], b.S[j] <= B))),
            ("C09:any-fit", z3.ForAll([a, bb], z3.Implies(z3.And(0 <= a, a < bb, bb < b.nb), b.S[a] + b.FST[bb] > B))),
            ("C03:no-empty-bin", z3.Implies(i >= 1, forall_bins(b, lambda j: b.CNT[j] >= 1))),
            ("start", z3.Implies(i == 0, z3.And(b.nb == 1, b.CNT[0] == 0, b.S[0] == 0))),
            ("C19:no-oversize-so-far", z3.ForAll([t], z3.Implies(z3.And(0 <= t, t < i), L.val(items.arr[items.lo + t]) <= B)))]


def fit_post(c, kind, res):
    items, B = c.arg("items"), term_of(c.arg("binsize"))
    n = items.hi - items.lo
    t, a, bb = (L.fresh(x, L.IntS) for x in "tab")
    if kind == "raise":
        return [("C19:ValueError-only-for-an-oversize-item", z3.And(z3.BoolVal(res.cls == "ValueError"),
                                                                   z3.Exists([t], z3.And(items.lo <= t, t < items.hi, L.val(items.arr[t]) > B))))]
    if not isinstance(res, ABins):
        return [("C03:returns-bins", z3.BoolVal(False))]
    return [("C03:every-sum<=binsize", forall_bins(res, lambda j: res.S[j] <= B)),
            ("C03:every-item-exactly-once", res.G == bag_of(items)),
            ("C03:no-empty-bin-for-nonempty-input", z3.Implies(n >= 1, forall_bins(res, lambda j: res.CNT[j] >= 1))),
            ("C06:wf", res.wf()),
            ("C09:any-fit", z3.ForAll([a, bb], z3.Implies(z3.And(0 <= a, a < bb, bb < res.nb), res.S[a] + res.FST[bb] > B))),
            ("C19:returns-only-without-oversize-item", z3.ForAll([t], z3.Implies(z3.And(items.lo <= t, t < items.hi), L.val(items.arr[t]) <= B)))]


class FirstFitOnline(FunctionContract):
    target = "prtpy/packing/first_fit.py::online"
    tier = "T1"
    min_obligations = 25
    expect_raise = ("ValueError",)

    def make_args(self, it, shape):
        return fit_args(it)

    @staticmethod
    def outer(c):
        return outer_facts(c, c["bins"], c.idx, c.seq, c.t("binsize"))

    @staticmethod
    def inner(c):
        b, i, items, B = c["bins"], c.t("__idx__"), c.arg("items"), c.t("binsize")
        ib, value = c.t("ibin"), c.t("value")
        j = L.fresh("j", L.IntS)
        return outer_facts(c, b, i, items, B) + [
            ("cursor", z3.And(0 <= ib, ib <= b.nb)),
            ("value", z3.And(value == L.val(c["item"].t), c["item"].t == items.arr[items.lo + i], value <= B)),
            ("C09,C14:no-earlier-bin-fits", z3.ForAll([j], z3.Implies(z3.And(0 <= j, j < ib), b.S[j] + value > B)))]

    loops = {0: LoopSpec("items", outer.__func__, name="items-loop"), 1: LoopSpec("ibin < numbins", inner.__func__, name="scan-loop")}

    @staticmethod
    def step_fit(c, args, kwargs):
        b, idx, value, B = args[0], term_of(args[2]), c.t("value"), c.t("binsize")
        j = L.fresh("j", L.IntS)
        return [("C14:first-bin-that-fits", z3.And(in_range(idx, b.nb), b.S[idx] + value <= B,
                                                   z3.ForAll([j], z3.Implies(z3.And(0 <= j, j < idx), b.S[j] + value > B)))),
                ("C14:item-is-the-current-one", args[1].t == c["item"].t)]

    @staticmethod
    def step_new(c, args, kwargs):
        b, idx, value, B = args[0], term_of(args[2]), c.t("value"), c.t("binsize")
        return [("C14:new-bin-only-when-no-bin-fits", z3.And(idx == b.nb - 1, b.CNT[idx] == 0,
                                                             forall_bins(b, lambda j: z3.Implies(j < idx, b.S[j] + value > B)))),
                ("C14:item-is-the-current-one", args[1].t == c["item"].t)]

    calls = {("add_item_to_bin", 0): step_fit.__func__, ("add_item_to_bin", 1): step_new.__func__}

    def post(self, c, kind, res):
        return fit_post(c, kind, res)

    # call-site form (used by decreasing): requires nothing beyond the argument types; ensures = post
    def apply_at_call(self, it, f, args, kwargs):
        binner, binsize, items = (list(args) + [None] * 3)[:3]
        binsize = kwargs.get("binsize", binsize)
        items = kwargs.get("items", items)
        if not isinstance(items, SSeq):
            raise Unsupported("first_fit.online called by contract with a non-sequence")
        B = term_of(binsize)
        t = L.fresh("t", L.IntS)
        over = z3.Exists([t], z3.And(items.lo <= t, t < items.hi, L.val(items.arr[t]) > B))
        ctx = Ctx(it, Env(), {"items": items, "binsize": binsize})
        if it.decide([over, z3.Not(over)]) == 0:
            e = ExcV("ValueError")
            e.line = it.cur_line
            raise RaiseSig(e)
        res = ABins.fresh("online_result")
        it.assume(res.nb >= 1)
        for name, fm in fit_post(ctx, "return", res):
            it.assume(fm)
        it.assume(res.REM == L.EMPTY)
        res.processed = items
        return res


class BestFitOnline(FirstFitOnline):
    target = "prtpy/packing/best_fit.py::online"

    @staticmethod
    def inner(c):
        b, i, items, B = c["bins"], c.t("__idx__"), c.arg("items"), c.t("binsize")
        ib, value = c.t("ibin"), c.t("value")
        bi, bs = term_of(c["best_bin"][0]), term_of(c["best_bin"][1])
        j = L.fresh("j", L.IntS)
        fits = lambda j: b.S[j] + value <= B
        return [("cursor", z3.And(0 <= ib, ib <= b.nb)),
                ("C09,C14:best-so-far", z3.Or(
                    z3.And(bi == -1, bs == -1, z3.ForAll([j], z3.Implies(z3.And(0 <= j, j < ib), z3.Not(fits(j))))),
                    z3.And(0 <= bi, bi < ib, bs == b.S[bi] + value, bs <= B,
                           z3.ForAll([j], z3.Implies(z3.And(0 <= j, j < ib, fits(j)), b.S[j] + value <= bs)),
                           z3.ForAll([j], z3.Implies(z3.And(0 <= j, j < bi, fits(j)), b.S[j] + value < bs)))))]

    loops = {0: LoopSpec("items", FirstFitOnline.outer, name="items-loop"),
             1: LoopSpec("ibin < numbins", inner.__func__, name="scan-loop", sorts={"best_bin": (L.IntS, L.RealS)})}

    @staticmethod
    def step_fit(c, args, kwargs):
        b, idx, value, B = args[0], term_of(args[2]), c.t("value"), c.t("binsize")
        j = L.fresh("j", L.IntS)
        fits = lambda j: b.S[j] + value <= B
        return [("C14:fullest-bin-that-fits-first-among-ties", z3.And(in_range(idx, b.nb), fits(idx),
                                                                     forall_bins(b, lambda j: z3.Implies(fits(j), b.S[j] <= b.S[idx])),
                                                                     forall_bins(b, lambda j: z3.Implies(z3.And(j < idx, fits(j)), b.S[j] < b.S[idx])))),
                ("C14:item-is-the-current-one", args[1].t == c["item"].t)]

    calls = {("add_item_to_bin", 0): step_fit.__func__, ("add_item_to_bin", 1): FirstFitOnline.step_new}


first_fit_online = FirstFitOnline()
best_fit_online = BestFitOnline()


class Decreasing(FunctionContract):
    """first_fit.decreasing / best_fit.decreasing: sorted(...) then online, *by online's contract* (modular)"""
    tier = "T1"
    min_obligations = 6
    expect_raise = ("ValueError",)

    def __init__(self, target, online):
        self.target = target
        self.uses = [online]

    def make_args(self, it, shape):
        return fit_args(it)

    def post(self, c, kind, res):
        out = fit_post(c, kind, res)
        if kind == "return" and isinstance(res, ABins):
            p = getattr(res, "processed", None)
            a, b = L.fresh("a", L.IntS), L.fresh("b", L.IntS)
            if p is None:
                out.append(("C09:processed-in-nonincreasing-order", z3.BoolVal(False)))
            else:
                out.append(("C09:processed-in-nonincreasing-order",
                            z3.And(bag_of(p) == bag_of(c.arg("items")),
                                   z3.ForAll([a, b], z3.Implies(z3.And(p.lo <= a, a <= b, b < p.hi), L.val(p.arr[a]) >= L.val(p.arr[b]))))))
        return out


ffd = Decreasing("prtpy/packing/first_fit.py::decreasing", first_fit_online)
bfd = Decreasing("prtpy/packing/best_fit.py::decreasing", best_fit_online)
