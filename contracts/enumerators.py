"""contracts: the two search enumerators of C13 (T2: every shape up to the bound, ALL values)
  - InExclusionBinTree.generate_tree: yields every sub-collection whose total lies within the window exactly once, nothing else
  - Binner*.all_combinations: yields every distinct pairing of the bins of two arrays exactly once"""
import itertools
from .common import *
from .binners import VALUEOF, State, view
from .exact import same_multiset


class Tree(FunctionContract):
    target = "prtpy/inclusion_exclusion_tree.py::InExclusionBinTree.generate_tree"
    tier = "T2"
    min_obligations = 2
    unroll_limit = 200
    crosscheck = False

    def shapes(self, level):
        return [(n, r) for n in range(0, (4 if level == "quick" else 5) + 1) for r in (False, True) if not (r and n > 3)]

    def shape_text(self, s):
        return f"n={s[0]} items (zeros and repeats included: values are arbitrary non-negative reals), window [lo, hi] arbitrary" + \
               ("; the lower bound is re-assigned after construction, as SNP / RNP do" if s[1] else "")

    def make_args(self, it, shape):
        n, reassign = shape
        self._n = n
        xs = [ItemV(z3.Const(f"x{i}", L.Item)) for i in range(n)]
        for x in xs:
            it.assume(L.val(x.t) >= 0)
        lo, hi = z3.Real("lower_bound"), z3.Real("upper_bound")
        cls = it.get_function("prtpy/inclusion_exclusion_tree.py::InExclusionBinTree")
        lo0 = z3.Real("lower_bound_at_construction") if reassign else lo
        tree = it.instantiate(cls, [], {"items": PList(list(xs)), "valueof": VALUEOF, "upper_bound": SV(hi), "lower_bound": SV(lo0)})
        if reassign:
            it.setattr(tree, "lower_bound", SV(lo))          # the window that counts is the one in force when the tree is generated
        self._lo, self._hi, self._tree = lo, hi, tree
        return {"__self__": tree}

    def post(self, c, kind, res):
        if kind != "return":
            return []
        it, n = c.it, self._n
        items = self._tree.attrs["items"].elems          # the sorted list the tree works on (a permutation of the input, by sorted's contract)
        ids = [str(x.t) for x in items]
        ys = []
        ok_form = True
        for y in res.elems:
            t = tuple(sorted(ids.index(str(x.t)) for x in y.elems if str(x.t) in ids))
            if len(t) != len(y.elems) or len(set(t)) != len(t):
                ok_form = False
            ys.append(t)
        out = [("C13:yields-sub-collections-of-the-items", z3.BoolVal(ok_form)),
               ("C13:each-sub-collection-at-most-once", z3.BoolVal(len(set(ys)) == len(ys)))]
        inside, outside = [], []
        for r in range(n + 1):
            for T in itertools.combinations(range(n), r):
                tot = sum([L.val(items[i].t) for i in T], z3.RealVal(0))
                within = z3.And(self._lo <= tot, tot <= self._hi)
                (inside if T in ys else outside).append(within if T in ys else z3.Not(within))
        out.append(("C13:every-yielded-total-lies-within-the-window", z3.And(inside) if inside else z3.BoolVal(True)))
        out.append(("C13:every-sub-collection-within-the-window-is-yielded", z3.And(outside) if outside else z3.BoolVal(True)))
        return out


tree = Tree()


class AllCombinations(FunctionContract):
    tier = "T2"
    min_obligations = 3
    unroll_limit = 200
    crosscheck = False

    def __init__(self, kind):
        self.kind = kind
        self.target = f"prtpy/binners.py::BinnerKeeping{kind}.all_combinations"

    def shapes(self, level):
        if self.kind == "Sums":     # one ghost item per bin: the sums are arbitrary non-negative reals
            return [(k, 1) for k in (1, 2, 3)]          # 4 bins (24 pairings, symbolic sums) does not finish within the budget
        return [(1, 0), (1, 1), (2, 0), (2, 1), (3, 0)]

    def shape_text(self, s):
        return f"{self.kind} manager, {s[0]} bins in each array" + (f", {s[1]} item(s) per bin" if self.kind == "Contents" else "")

    def make_args(self, it, shape):
        k, c = shape
        self._shape = shape
        cls = it.get_function(f"prtpy/binners.py::BinnerKeeping{self.kind}")
        me = it.instantiate(cls, [VALUEOF], {})
        a, b = State(it, self.kind, (c,) * k, "a"), State(it, self.kind, (c,) * k, "b")
        for s in a.arr.tolist() + b.arr.tolist():
            it.assume(term_of(s) >= 0)
        self._a, self._b = a, b
        self._va, self._vb = view(self.kind, a.value), view(self.kind, b.value)
        return {"__self__": me, "bins1": a.value, "bins2": b.value}

    def post(self, c, kind, res):
        if kind != "return":
            return []
        k = self._shape[0]
        sa, ca = self._va
        sb, cb = self._vb
        ys = [view(self.kind, y) for y in res.elems]

        def arr_eq(y, pi):
            """yielded array y equals the pairing pi (bin i of bins2 with bin pi[i] of bins1), as an array sorted by its manager's key"""
            if self.kind == "Sums":
                return same_multiset(y[0], [sa[pi[i]] + sb[i] for i in range(k)])
            target = [ca[pi[i]] + cb[i] for i in range(k)]
            if any(len(t) != len(yb) for t, yb in zip(sorted(target, key=len), sorted(y[1], key=len))):
                return z3.BoolVal(False)
            return z3.Or([z3.And([same_multiset(y[1][i], target[sg[i]]) for i in range(k)]) for sg in itertools.permutations(range(k))])

        def y_eq(y1, y2):
            if self.kind == "Sums":
                return same_multiset(y1[0], y2[0])
            return z3.Or([z3.And([same_multiset(y1[1][i], y2[1][sg[i]]) for i in range(k)]) for sg in itertools.permutations(range(k))])
        perms = list(itertools.permutations(range(k)))
        out = [("C13:every-yielded-array-is-a-pairing", z3.And([z3.Or([arr_eq(y, pi) for pi in perms]) for y in ys] or [z3.BoolVal(True)])),
               ("C13:every-pairing-is-yielded", z3.And([z3.Or([arr_eq(y, pi) for y in ys] or [z3.BoolVal(False)]) for pi in perms])),
               ("C13:each-distinct-pairing-exactly-once", z3.And([z3.Not(y_eq(ys[i], ys[j])) for i in range(len(ys)) for j in range(i + 1, len(ys))] or [z3.BoolVal(True)])),
               ("C13:yielded-arrays-sorted-by-ascending-sum", z3.And([y[0][i] <= y[0][i + 1] for y in ys for i in range(k - 1)] or [z3.BoolVal(True)])),
               ("C13:arguments-unmodified", z3.And([p == q for p, q in zip(view(self.kind, self._a.value)[0] + view(self.kind, self._b.value)[0], sa + sb)] or [z3.BoolVal(True)]))]
        if self.kind == "Contents":
            out.append(("C06:yielded-sums-describe-yielded-contents", z3.And([s == sum([L.val(x) for x in l], z3.RealVal(0)) for y in ys for s, l in zip(y[0], y[1])] or [z3.BoolVal(True)])))
        return out


comb_sums = AllCombinations("Sums")
comb_contents = AllCombinations("Contents")
ALL = [("contracts.enumerators", n) for n in ("tree", "comb_sums", "comb_contents")]
