"""contracts: prtpy/partitioning/greedy.py, roundrobin.py  (T1: unbounded, loop invariants)"""
from .common import *


class Greedy(FunctionContract):
    target = "prtpy/partitioning/greedy.py::greedy"
    tier = "T1"
    min_obligations = 10

    def make_args(self, it, shape):
        k = z3.Int("numbins")
        it.assume(k >= 1)
        return {"binner": ABinner(), "numbins": SV(k), "items": item_seq(it)}

    @staticmethod
    def inv(c):
        b, i, r, k = c["bins"], c.idx, c.seq, c.t("numbins")
        M = L.val(r.arr[r.lo])
        return [("numbins", b.nb == k),
                ("conservation", b.G == L.rbag(r.arr, r.lo, r.lo + i)),
                ("wf", b.wf()),
                ("nothing-removed", b.REM == L.EMPTY),
                ("sums-nonneg", forall_bins(b, lambda j: b.S[j] >= 0)),
                ("gap<=largest", forall_bins(b, lambda j, l: b.S[j] - b.S[l] <= M, 2))]

    loops = {0: LoopSpec(None, inv.__func__)}

    @staticmethod
    def step(c, args, kwargs):
        b, item, idx = args[0], args[1], term_of(args[2])
        i = c.t("__idx__")
        r_prev = L.fresh("a", L.IntS)
        return [("C14:least-loaded-bin", forall_bins(b, lambda j: b.S[idx] <= b.S[j])),
                ("C14:index-in-range", in_range(idx, b.nb))]

    calls = {("add_item_to_bin", 0): step.__func__}

    def post(self, c, kind, res):
        if kind != "return":
            return []
        items, k = c.arg("items"), term_of(c.arg("numbins"))
        if not isinstance(res, ABins):
            return [("C01:returns-bins", z3.BoolVal(False))]
        k0 = L.fresh("k0", L.IntS)
        return [("C01:numbins", res.nb == k),
                ("C01:every-item-exactly-once", res.G == bag_of(items)),
                ("C06:wf", res.wf()),
                ("C08:gap<=some-item", z3.Exists([k0], z3.And(items.lo <= k0, k0 < items.hi,
                                                              forall_bins(res, lambda j, l: res.S[j] - res.S[l] <= L.val(items.arr[k0]), 2))))]


greedy = Greedy()


class RoundRobin(FunctionContract):
    target = "prtpy/partitioning/roundrobin.py::roundrobin"
    tier = "T1"
    min_obligations = 20

    def make_args(self, it, shape):
        k = z3.Int("numbins")
        it.assume(k >= 1)
        return {"binner": ABinner(), "numbins": SV(k), "items": item_seq(it)}

    @staticmethod
    def inv(c):
        b, i, r, k, ib = c["bins"], c.idx, c.seq, c.t("numbins"), c.t("ibin")
        v = lambda a: L.val(r.arr[r.lo + a])
        D0 = b.S[0] - z3.If(i >= 1, v(0), 0)
        j, l = L.fresh("j", L.IntS), L.fresh("l", L.IntS)
        return [("numbins", b.nb == k),
                ("cursor", z3.And(0 <= ib, ib < k)),
                ("conservation", b.G == L.rbag(r.arr, r.lo, r.lo + i)),
                ("wf", b.wf()),
                ("nothing-removed", b.REM == L.EMPTY),
                ("start", z3.Implies(i == 0, forall_bins(b, lambda j: z3.And(b.S[j] == 0, b.CNT[j] == 0)))),
                ("I_a:sums-nonincreasing", z3.ForAll([j, l], z3.Implies(z3.And(0 <= j, j < l, l < k), b.S[j] >= b.S[l]))),
                ("I_b:one-item-offset", z3.Implies(i >= 1, z3.ForAll([j, l], z3.Implies(z3.And(0 <= j, j < ib, ib <= l, l < k), b.S[j] >= b.S[l] + v(i - 1))))),
                ("I_f1:first-minus-largest<=last", D0 <= b.S[k - 1]),
                ("I_f2", z3.Implies(z3.And(ib == 0, i >= 1), D0 + v(i - 1) <= b.S[k - 1])),
                ("I_g:cardinalities", forall_bins(b, lambda j: b.CNT[j] == b.CNT[k - 1] + z3.If(j < ib, 1, 0)))]

    loops = {0: LoopSpec(None, inv.__func__)}

    @staticmethod
    def step(c, args, kwargs):
        b, idx = args[0], term_of(args[2])
        # cyclic dealing, as a relation on the state at this moment: the target is the first of the least-populated bins
        # (stating it as  idx == i mod numbins  needs non-linear arithmetic with a symbolic modulus; this form is equivalent from an empty start)
        return [("C14:cyclic-dealing(first-least-populated-bin)",
                 forall_bins(b, lambda j: z3.And(b.CNT[idx] <= b.CNT[j], z3.Implies(j < idx, b.CNT[j] > b.CNT[idx])))),
                ("C14:index-in-range", in_range(idx, b.nb))]

    calls = {("add_item_to_bin", 0): step.__func__}

    def post(self, c, kind, res):
        if kind != "return":
            return []
        items, k = c.arg("items"), term_of(c.arg("numbins"))
        if not isinstance(res, ABins):
            return [("C01:returns-bins", z3.BoolVal(False))]
        k0 = L.fresh("k0", L.IntS)
        j, l = L.fresh("j", L.IntS), L.fresh("l", L.IntS)
        return [("C01:numbins", res.nb == k),
                ("C01:every-item-exactly-once", res.G == bag_of(items)),
                ("C06:wf", res.wf()),
                ("C08:sums-nonincreasing-in-index", z3.ForAll([j, l], z3.Implies(z3.And(0 <= j, j < l, l < k), res.S[j] >= res.S[l]))),
                ("C08:cardinalities-differ-by<=1", forall_bins(res, lambda j, l: z3.And(res.CNT[j] - res.CNT[l] <= 1, res.CNT[l] - res.CNT[j] <= 1), 2)),
                ("C08:gap<=some-item", z3.Exists([k0], z3.And(items.lo <= k0, k0 < items.hi,
                                                              forall_bins(res, lambda j, l: res.S[j] - res.S[l] <= L.val(items.arr[k0]), 2))))]


roundrobin = RoundRobin()


# ------------------------------------------------------------------------------------------------ multifit (T1, with one trusted theorem)
# number of bins first-fit uses on the sequence a[lo:hi] with a given capacity: a function of (sequence, capacity) by purity (C15)
FF = z3.Function("FFcount", L.ISeq, L.IntS, L.IntS, L.RealS, L.IntS)


def _sorted_of(it):
    return getattr(it, "_multifit_sorted", None)


class PackCount(FunctionContract):
    """call-site contract of prtpy.pack(algorithm=first_fit, binsize=b, items=s, outputtype=BinCount) inside multifit:
    requires no item larger than b (otherwise first-fit raises); returns FFcount(b) >= 1"""
    target = "prtpy/packing/adaptors.py::pack"
    tier = "T1"
    writes_args = ()            # frame clause: pack writes none of its arguments (C15, proved by the static checker)

    def apply_at_call(self, it, f, args, kwargs):
        b, items = kwargs.get("binsize"), kwargs.get("items")
        if not isinstance(items, SSeq) or b is None:
            raise Unsupported("prtpy.pack called by contract with unexpected arguments")
        B = term_of(b)
        it.prove("multifit/call:pack/requires/no-item-larger-than-the-probed-capacity", all_items(items, lambda x, _: L.val(x) <= B), kind="pre")
        it.assume(FF(items.arr, items.lo, items.hi, B) >= 1)
        return SV(FF(items.arr, items.lo, items.hi, B))


class FirstFitInMultifit(FunctionContract):
    """first_fit.online as used at the end of multifit: its (separately proved) contract, plus nb = FFcount(binsize) by definition of FFcount"""
    target = "prtpy/packing/first_fit.py::online"
    tier = "T1"
    writes_args = ()

    def apply_at_call(self, it, f, args, kwargs):
        from .packing_fit import first_fit_online
        res = first_fit_online.apply_at_call(it, f, args, kwargs)
        items = kwargs.get("items", args[2] if len(args) > 2 else None)
        it.assume(res.nb == FF(items.arr, items.lo, items.hi, term_of(kwargs.get("binsize", args[1] if len(args) > 1 else None))))
        return res


class Multifit(FunctionContract):
    target = "prtpy/partitioning/multifit.py::multifit"
    tier = "T1"
    min_obligations = 8
    uses = [PackCount(), FirstFitInMultifit()]

    def make_args(self, it, shape):
        k = z3.Int("numbins")
        it.assume(k >= 1)
        items = item_seq(it)
        T, M = tot_of(items), L.rmax(items.arr, items.lo, items.hi)
        b, a = L.fresh("b", L.RealS), L.fresh("a", L.ISeq)
        i, j = L.fresh("i", L.IntS), L.fresh("j", L.IntS)
        n = items.hi - items.lo
        it.trust("THEOREM (trusted, Coffman-Garey-Johnson 1978): first-fit on the items in DECREASING order with capacity >= max(2*sum/numbins, largest item) uses at most numbins bins")
        decreasing_perm = z3.And(L.rbag(a, 0, n) == bag_of(items), z3.ForAll([i, j], z3.Implies(z3.And(0 <= i, i <= j, j < n), L.val(a[i]) >= L.val(a[j]))))
        it.assume(z3.ForAll([a, b], z3.Implies(z3.And(decreasing_perm, b >= (2 * T) / z3.ToReal(k), b >= M), FF(a, 0, n, b) <= k)))
        return {"binner": ABinner(), "numbins": SV(k), "items": items}

    @staticmethod
    def inv(c):
        items = c.arg("items")
        M = L.rmax(items.arr, items.lo, items.hi)
        lo, up, k = c.t("lower_bound"), c.t("upper_bound"), c.t("numbins")
        s = c["sorted_items"]
        out = [("largest-item<=lower-bound(no-probe-can-raise)", M <= lo), ("largest-item<=upper-bound", M <= up),
               ("C01:first-fit-decreasing-with-capacity-upper_bound-needs<=numbins-bins", FF(s.arr, s.lo, s.hi, up) <= k)]
        if c.has("binsize"):          # a variant that carries the probed capacity across iterations: it, too, never drops below the largest item
            out.append(("largest-item<=carried-capacity", M <= c.t("binsize")))
        return out

    loops = {0: LoopSpec("range(iterations)", inv.__func__, name="bisection")}

    def post(self, c, kind, res):
        if kind != "return":
            return []
        items, k = c.arg("items"), term_of(c.arg("numbins"))
        if not isinstance(res, ABins):
            return [("C01:returns-bins", z3.BoolVal(False))]
        return [("C01:multifit-never-more-than-numbins-bins", z3.And(res.nb >= 1, res.nb <= k)),
                ("C01:every-item-exactly-once", res.G == bag_of(items)),
                ("C06:wf", res.wf())]


multifit = Multifit()
