"""contract: prtpy/partitioning/integer_programming.py::optimal  (C17; T2 under the ASSUMED contract of the MIP solver, assumption A3)

The REAL function is executed with a symbolic `mip` (pyvc/mipmodel.py): every constraint the code builds is collected; `optimize` returns
OPTIMAL with unknowns that satisfy them and minimise the objective (instantiated for an ARBITRARY alternative assignment `alt`), or any other
status.  Proved for all integer values / positive weights at every shape up to the bound:
  copies honoured - non-OPTIMAL => ValueError - bins in non-decreasing (weighted) order, bin i divided by weight i - caller constraints hold
  in the result - the (weighted) objective of the RESULT is <= that of every alternative satisfying copies, order and caller constraints."""
import ast, itertools
from .common import *
from .binners import VALUEOF
from .exact import int_items
from .objectives import zmin, zmax
from pyvc import mipmodel

OBJ = {"difference": ("MinimizeDifference", lambda s: zmax(s) - zmin(s)),
       "min-max": ("MinimizeLargestSum", lambda s: zmax(s)),
       "max-min": ("MaximizeSmallestSum", lambda s: -zmin(s))}
CONSTRAINT_FORMS = {None: None, "smallest==c": "lambda sums: [sums[0] == C]", "largest<=c": "lambda sums: [sums[-1] <= C]", "smallest>=c": "lambda sums: [sums[0] >= C]"}


class Ilp(FunctionContract):
    target = "prtpy/partitioning/integer_programming.py::optimal"
    tier = "T2"
    min_obligations = 5
    unroll_limit = 60
    expect_raise = ("ValueError",)
    crosscheck = False

    def shapes(self, level):
        out = []
        ns = (1, 2) if level == "quick" else (1, 2, 3)
        for n in ns:
            for k in (1, 2, 3):
                for copies in (1, 2, "per-item"):
                    for weights in (False, True):
                        for objname in OBJ:
                            for cons in CONSTRAINT_FORMS:
                                if level == "quick" and (cons is not None and (objname != "max-min" or copies == 2)):
                                    continue
                                if level == "quick" and copies == "per-item" and objname == "min-max":
                                    continue
                                out.append((n, k, copies, weights, objname, cons))
        return out

    def shape_text(self, s):
        n, k, copies, weights, objname, cons = s
        return f"n={n} numbins={k} copies={copies} weights={'symbolic positive' if weights else 'none'} objective={objname} constraint={cons}"

    def make_args(self, it, shape):
        n, k, copies, weights, objname, cons = shape
        self._shape = shape
        xs, vs = int_items(it, n)
        self._xs, self._vs = xs, vs
        cls = it.get_function("prtpy/binners.py::BinnerKeepingContents")
        O = it.load_module("prtpy.objectives")
        args = {"binner": it.instantiate(cls, [VALUEOF], {}), "numbins": k, "items": PList(list(xs)), "objective": it.force(O.attrs[OBJ[objname][0]])}
        if copies == "per-item":
            self._copies = [(i % 3) for i in range(1, n + 1)] if n > 1 else [2]       # e.g. [1, 2]: 0, 1 and 2 copies occur over the shapes
            if n == 3:
                self._copies = [1, 2, 0]
            args["copies"] = PList(list(self._copies))
        else:
            self._copies = [copies] * n
            args["copies"] = copies
        self._w = None
        if weights:
            ws = [z3.Real(f"w{j}") for j in range(k)]        # any positive weights, fractional ones included (sum(weights) may be below numbins)
            for w in ws:
                it.assume(w > 0)
            self._w = ws
            args["weights"] = PList([SV(w) for w in ws])
        self._C = z3.Int("C")
        if cons is not None:
            env = Env()
            env.vars["C"] = SV(self._C)
            args["additional_constraints"] = Closure(ast.parse(CONSTRAINT_FORMS[cons], mode="eval").body, env, it.load_module("prtpy.objectives"), "<constraint>")
        # the 'minimises' clause of the solver contract, for an arbitrary alternative assignment alt (free symbols = universally quantified)
        self._alt, self._alt_feasible, self._alt_objective = {}, None, None

        def optimality_instance(model):
            pairs = []
            for v in model.vars:
                a = z3.Int("alt_" + str(v))
                self._alt[str(v)] = a
                pairs.append((v, a))
            lbs = [v >= 0 for v in model.vars]
            feas = z3.substitute(z3.And(model.constraints + lbs), *pairs)
            self._alt_feasible = feas
            self._alt_objective = z3.substitute(model.objective.t, *pairs)
            self._model = model
            return z3.Implies(feas, model.objective.t <= self._alt_objective)
        it.ghost = {"optimality_instance": optimality_instance}
        self._it = it
        return args

    def weighted(self, sums):
        if self._w is None:
            return list(sums)
        return [s / w for s, w in zip(sums, self._w)]

    def post(self, c, kind, res):
        n, k, copies, weights, objname, cons = self._shape
        it = c.it
        models = getattr(it, "mip_models", [])
        model = models[-1] if models else None
        if kind == "raise":
            # an error is raised exactly on the paths where the solver did not prove optimality
            solved = bool(model is not None and model.solved) if model is not None else False
            return [("C17:ValueError-only-when-the-solver-did-not-prove-optimality", z3.BoolVal(res.cls == "ValueError" and not solved))]
        if model is None or not model.solved:
            return [("C17:a-partition-is-returned-only-on-status-OPTIMAL", z3.BoolVal(False))]
        sums = [term_of(s) for s in res[0].tolist()]
        lists = [[x for x in l.elems] for l in res[1].elems]
        out = [("C17:number-of-bins", z3.BoolVal(len(sums) == k))]
        # copies: item i is placed exactly copies[i] times in total
        placed = [x for l in lists for x in l]
        ok = all(isinstance(x, ItemV) for x in placed)
        cnt = [sum([z3.If(p.t == x.t, 1, 0) for p in placed], z3.IntVal(0)) for x in self._xs] if ok else []
        # two input positions may hold the SAME item (equal numbers in a plain list): its occurrences are then the sum of their copies
        due = [sum([z3.If(y.t == x.t, cp, 0) for y, cp in zip(self._xs, self._copies)], z3.IntVal(0)) for x in self._xs]
        out.append(("C17:every-item-placed-exactly-copies-times", z3.And(z3.BoolVal(ok and len(placed) == sum(self._copies)),
                                                                        z3.And([cn == d for cn, d in zip(cnt, due)] or [z3.BoolVal(True)]))))
        out.append(("C06:sums-describe-the-bins", z3.And([s == sum([L.val(x.t) for x in l], z3.RealVal(0)) for s, l in zip(sums, lists)] or [z3.BoolVal(True)])))
        if len(sums) != k:
            return out
        ws = self.weighted(sums)
        out.append(("C17:bins-in-nondecreasing-order-of-(weighted)-sum;bin-i-is-the-one-divided-by-weight-i", z3.And([a <= b for a, b in zip(ws, ws[1:])] or [z3.BoolVal(True)])))
        if cons is not None:
            C = z3.ToReal(self._C)
            f = {"smallest==c": zmin(ws) == C, "largest<=c": zmax(ws) <= C, "smallest>=c": zmin(ws) >= C}[cons]
            out.append(("C17:caller-constraint-holds-in-the-result", f))
        # optimal among the alternatives that satisfy copies, order and caller constraints (the arbitrary alternative of the solver contract)
        if not self._alt:
            # the code switched on a solver option that relaxes optimality (e.g. a MIP gap): status OPTIMAL no longer means 'minimises'
            return out + [("C17:objective-of-the-result-is-optimal-among-admissible-partitions", z3.BoolVal(False))]
        alt_sums = []
        vars_ = model.vars       # counts[iitem][ibin] were created item-major
        for j in range(k):
            alt_sums.append(sum([z3.ToReal(self._alt[str(vars_[i * k + j])]) * L.val(self._xs[i].t) for i in range(n)], z3.RealVal(0)))
        alt_w = self.weighted(alt_sums)
        spec = OBJ[objname][1]
        # "admissible" is defined HERE, from the property (non-negative counts, item i placed copies[i] times, bins in non-decreasing weighted
        # order, the caller's constraint) - not by whatever constraints the code hands to the solver: an invalid extra cut in the model makes
        # spec-admissible alternatives infeasible for the solver, and the 'minimises' clause of A3 then no longer carries this obligation
        acnt = [[self._alt[str(vars_[i * k + j])] for j in range(k)] for i in range(n)]
        adm = [a >= 0 for row in acnt for a in row] + [sum(row, z3.IntVal(0)) == cp for row, cp in zip(acnt, self._copies)] + [a <= b for a, b in zip(alt_w, alt_w[1:])]
        if cons is not None:
            C = z3.ToReal(self._C)
            adm.append({"smallest==c": zmin(alt_w) == C, "largest<=c": zmax(alt_w) <= C, "smallest>=c": zmin(alt_w) >= C}[cons])
        out.append(("C17:objective-of-the-result-is-optimal-among-admissible-partitions", z3.Implies(z3.And(adm), spec(ws) <= spec(alt_w))))
        return out


ilp = Ilp()
ALL = [("contracts.ilp", "ilp")]
