"""contracts: prtpy/packing/greedy_covering.py, cflz_covering.py::twothirds  (T1)"""
from .common import *


def cover_args(it):
    B = z3.Real("binsize")
    it.assume(B > 0)
    return {"binner": ABinner(), "binsize": SV(B), "items": item_seq(it, nonempty=False)}


def shape(b, B):
    """every bin but the last is covered, the last one is not (it is the bin being filled)"""
    return [("shape:nb>=1", b.nb >= 1),
            ("shape:all-but-last-covered", forall_bins(b, lambda j: z3.Implies(j < b.nb - 1, b.S[j] >= B))),
            ("shape:last-not-covered", b.S[b.nb - 1] < B),
            ("wf", b.wf()),
            ("nothing-removed", b.REM == L.EMPTY)]


def cover_post(c, kind, res):
    items, B = c.arg("items"), term_of(c.arg("binsize"))
    if kind != "return" or not isinstance(res, ABins):
        return [("C05:returns-bins", z3.BoolVal(False))] if kind == "return" else []
    return [("C05:every-bin-covered", forall_bins(res, lambda j: res.S[j] >= B)),
            ("C05:items-used-at-most-once+unused-are-the-dropped-bin", bag_union(res.G, res.REM) == bag_of(items)),
            ("C05:unused-total<binsize", L.btot(res.REM) < B),
            ("C06:wf", res.wf())]


class DecreasingSubroutine(FunctionContract):
    target = "prtpy/packing/greedy_covering.py::decreasing_subroutine"
    tier = "T1"
    min_obligations = 12
    writes_args = (1,)          # frame clause: only `bins` (position 1) is written; `sorted_items` is only read (checked: it is a frozen sequence in this contract)

    def make_args(self, it, shape_):
        a = cover_args(it)
        b = ABins.fresh("bins")
        B = term_of(a["binsize"])
        for _, f in shape(b, B):
            it.assume(f)
        it.assume(L.btot_empty())
        return {"binner": a["binner"], "bins": b, "binsize": a["binsize"], "sorted_items": a["items"]}

    @staticmethod
    def inv(c):
        b, i, r, B = c["bins"], c.idx, c.seq, c.t("binsize")
        b0 = c.arg("bins")
        return shape(b, B) + [("conservation", b.G == bag_union(b0.G, L.rbag(r.arr, r.lo, r.lo + i)))]

    loops = {0: LoopSpec("sorted_items", inv.__func__)}

    @staticmethod
    def step(c, args, kwargs):
        b, idx = args[0], args[2]
        return [("C14:next-fit:always-the-last-bin", z3.BoolVal(idx == -1)),
                ("C14:last-bin-is-not-yet-covered", b.S[b.nb - 1] < c.t("binsize"))]

    calls = {("add_item_to_bin", 0): step.__func__}

    def post(self, c, kind, res):
        if kind != "return" or not isinstance(res, ABins):
            return [("returns-bins", z3.BoolVal(False))] if kind == "return" else []
        b0, r, B = c.arg("bins"), c.arg("sorted_items"), term_of(c.arg("binsize"))
        return shape(res, B) + [("conservation", res.G == bag_union(b0.G, bag_of(r)))]

    def apply_at_call(self, it, f, args, kwargs):
        binner, bins, binsize, items = (list(args) + [None] * 4)[:4]
        bins = kwargs.get("bins", bins)
        binsize = kwargs.get("binsize", binsize)
        items = kwargs.get("sorted_items", items)
        if not isinstance(bins, ABins) or not isinstance(items, SSeq):
            raise Unsupported("decreasing_subroutine called by contract with unexpected argument types")
        bins.use()
        B = term_of(binsize)
        for name, fm in shape(bins, B):
            it.prove(f"{it.root.split('::')[1]}/call:decreasing_subroutine/requires/{name}", fm, kind="pre")
        res = ABins.fresh("subroutine_result")
        for name, fm in shape(res, B):
            it.assume(fm)
        it.assume(res.G == bag_union(bins.G, bag_of(items)))
        bins.consumed = True
        return res


decreasing_subroutine = DecreasingSubroutine()


class CoverDecreasing(FunctionContract):
    target = "prtpy/packing/greedy_covering.py::decreasing"
    tier = "T1"
    min_obligations = 8
    uses = [decreasing_subroutine]

    def make_args(self, it, shape_):
        return cover_args(it)

    def post(self, c, kind, res):
        return cover_post(c, kind, res)


cover_decreasing = CoverDecreasing()


class TwoThirds(FunctionContract):
    target = "prtpy/packing/cflz_covering.py::twothirds"
    tier = "T1"
    min_obligations = 20

    def make_args(self, it, shape_):
        return cover_args(it)

    @staticmethod
    def common(c, inner=True):
        b, B, w = c["bins"], c.t("binsize"), c["items"]       # w: the local, sorted, shrinking list
        sh = [x for x in shape(b, B) if not (inner and x[0] == "shape:last-not-covered")]     # while filling, the last bin may just have been covered
        return sh + [("conservation:bins+remaining=input", bag_union(b.G, L.rbag(w.arr, w.lo, w.hi)) == bag_of(c.arg("items"))),
                     ("window", w.lo <= w.hi)]

    @staticmethod
    def outer(c):
        b, w = c["bins"], c["items"]
        return TwoThirds.common(c, False) + [("C14:bin-is-empty-when-started", z3.Implies(w.hi > w.lo, z3.And(b.CNT[b.nb - 1] == 0, b.S[b.nb - 1] == 0)))]

    @staticmethod
    def hints(c):
        w = c["items"]
        return [("empty", w.arr, w.lo, w.hi)]       # definition of rbag on an empty window

    loops = {0: LoopSpec("len(items) > 0", outer.__func__, name="bin-loop", hints=hints.__func__),
             1: LoopSpec("binner.sums(bins)[-1] < binsize", common.__func__, name="fill-loop")}

    @staticmethod
    def step_big(c, args, kwargs):
        b, w = args[0], c["items"]
        k = L.fresh("k", L.IntS)
        return [("C14:start-with-one-largest-remaining-item", z3.And(args[1].t == w.arr[w.lo], z3.BoolVal(args[2] == -1), b.CNT[b.nb - 1] == 0,
                                                                    z3.ForAll([k], z3.Implies(z3.And(w.lo <= k, k < w.hi), L.val(w.arr[k]) <= L.val(args[1].t)))))]

    @staticmethod
    def step_small(c, args, kwargs):
        b, w = args[0], c["items"]
        k = L.fresh("k", L.IntS)
        return [("C14:fill-with-the-smallest-remaining-item-while-not-covered",
                 z3.And(args[1].t == w.arr[w.hi - 1], z3.BoolVal(args[2] == -1), b.S[b.nb - 1] < c.t("binsize"),
                        z3.ForAll([k], z3.Implies(z3.And(w.lo <= k, k < w.hi), L.val(w.arr[k]) >= L.val(args[1].t)))))]

    calls = {("add_item_to_bin", 0): step_big.__func__, ("add_item_to_bin", 1): step_small.__func__}

    def post(self, c, kind, res):
        return cover_post(c, kind, res)


twothirds = TwoThirds()


class ThreeQuartersT1(FunctionContract):
    """cflz_covering.threequarters, unbounded (T1).  The three class comprehensions over the sorted list are the consecutive windows of the
    library lemma ClassWindows (premises checked on the real conditions of the code); the main `while True` loop carries conservation over the
    three shrinking windows; the closing phases call decreasing_subroutine by contract."""
    target = "prtpy/packing/cflz_covering.py::threequarters"
    tier = "T1"
    min_obligations = 20

    def make_args(self, it, shape_):
        from pyvc.lib import ClassWindows
        it.hooks["sseq_comprehension"] = ClassWindows()
        return cover_args(it)

    uses = [decreasing_subroutine]

    @staticmethod
    def windows(c):
        return c["big_items"], c["medium_items"], c["small_items"]

    @staticmethod
    def conservation(c):
        b = c["bins"]
        X, Y, Z = ThreeQuartersT1.windows(c)
        rest = bag_union(bag_union(L.rbag(X.arr, X.lo, X.hi), L.rbag(Y.arr, Y.lo, Y.hi)), L.rbag(Z.arr, Z.lo, Z.hi))
        return bag_union(b.G, rest) == bag_of(c.arg("items"))

    @staticmethod
    def common(c, inner):
        b, B = c["bins"], c.t("binsize")
        X, Y, Z = ThreeQuartersT1.windows(c)
        sh = [x for x in shape(b, B) if not (inner and x[0] == "shape:last-not-covered")]
        return sh + [("conservation:bins+three-remaining-classes=input", ThreeQuartersT1.conservation(c)),
                     ("windows", z3.And(X.lo <= X.hi, X.hi <= Y.lo, Y.lo <= Y.hi, Y.hi <= Z.lo, Z.lo <= Z.hi))]

    @staticmethod
    def outer(c):
        b = c["bins"]
        X, Y, Z = ThreeQuartersT1.windows(c)
        return ThreeQuartersT1.common(c, False) + [("C14:bin-is-empty-when-started", z3.Implies(Z.hi > Z.lo, z3.And(b.CNT[b.nb - 1] == 0, b.S[b.nb - 1] == 0)))]

    @staticmethod
    def fill(c):
        return ThreeQuartersT1.common(c, True)

    @staticmethod
    def hints(c):
        X, Y, Z = ThreeQuartersT1.windows(c)
        items = c.arg("items")
        s = c["items"]              # the sorted copy
        out = [("empty", w.arr, w.lo, w.hi) for w in (X, Y, Z)]
        out += [("concat", s.arr, (s.lo, X.hi), s.hi), ("concat", s.arr, (X.hi, Y.hi), s.hi)]
        return out

    loops = {0: LoopSpec("True", outer.__func__, name="bin-loop", hints=hints.__func__),
             "header:binner.sums(bins)[-1] < binsize": LoopSpec(None, fill.__func__, name="fill-loop")}

    @staticmethod
    def step_big(c, args, kwargs):
        b = args[0]
        X, Y, Z = ThreeQuartersT1.windows(c)
        B = c.t("binsize")
        two = L.rtot(Y.arr, Y.lo, z3.If(Y.hi - Y.lo >= 2, Y.lo + 2, Y.hi))
        return [("C14:open-with-the-largest-big-item-when-it-is-at-least-the-two-largest-medium-items",
                 z3.And(args[1].t == X.arr[X.lo], z3.BoolVal(args[2] == -1), 2 * L.val(args[1].t) >= B, L.val(args[1].t) >= two))]

    @staticmethod
    def step_medium(c, args, kwargs):
        X, Y, Z = ThreeQuartersT1.windows(c)
        B = c.t("binsize")
        v = L.val(args[1].t)
        return [("C14:otherwise-open-with-the-(at-most-two)-largest-medium-items", z3.And(z3.BoolVal(args[2] == -1), 3 * v >= B, 2 * v < B))]

    @staticmethod
    def step_small(c, args, kwargs):
        b = args[0]
        X, Y, Z = ThreeQuartersT1.windows(c)
        B = c.t("binsize")
        k = L.fresh("k", L.IntS)
        return [("C14:fill-with-the-smallest-small-item-while-not-covered",
                 z3.And(args[1].t == Z.arr[Z.hi - 1], z3.BoolVal(args[2] == -1), b.S[b.nb - 1] < B, 3 * L.val(args[1].t) < B,
                        z3.ForAll([k], z3.Implies(z3.And(Z.lo <= k, k < Z.hi), L.val(Z.arr[k]) >= L.val(args[1].t)))))]

    calls = {("add_item_to_bin", 0): step_big.__func__, ("add_item_to_bin", 1): step_medium.__func__, ("add_item_to_bin", 2): step_small.__func__}

    def post(self, c, kind, res):
        return cover_post(c, kind, res)


threequarters_t1 = ThreeQuartersT1()
