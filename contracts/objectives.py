"""contracts: prtpy/objectives.py  (T2: every vector length up to the stated bound, ALL integer values; loop-free after unrolling,
so each query is quantifier-free linear integer arithmetic and a `sat` answer is a genuine counterexample that is replayed)"""
import itertools
from .common import *
from pyvc.concrete import Concretizer, jsonable, unjson, same

NMAX = {"quick": 5, "thorough": 7}
KMAX = {"quick": 6, "thorough": 8}


def sum_vector(it, n, name="s", sorted_=False):
    xs = [z3.Int(f"{name}{i}") for i in range(n)]
    for x in xs:
        it.assume(x >= 0)
    if sorted_:
        for a, b in zip(xs, xs[1:]):
            it.assume(a <= b)
    return xs


def as_seq(xs, seqtype):
    vals = [SV(x) for x in xs]
    return PList(vals) if seqtype == "list" else tuple(vals) if seqtype == "tuple" else NdArr(vals)


def zmin(ts):
    r = ts[0]
    for t in ts[1:]:
        r = z3.If(t < r, t, r)
    return r


def zmax(ts):
    r = ts[0]
    for t in ts[1:]:
        r = z3.If(t > r, t, r)
    return r


def k_extreme_sum(res_term, xs, m, smallest, sign):
    """res_term == sign * (sum of the m smallest / largest of xs): some m-subset T with every element of T <= / >= every element outside"""
    n = len(xs)
    alts = []
    for T in itertools.combinations(range(n), m):
        out = [j for j in range(n) if j not in T]
        order = z3.And([xs[i] <= xs[j] if smallest else xs[i] >= xs[j] for i in T for j in out]) if out and T else z3.BoolVal(True)
        alts.append(z3.And(res_term == sign * (sum(xs[i] for i in T) if T else 0), order))
    return z3.Or(alts)


class ObjectiveValue(FunctionContract):
    tier = "T2"
    min_obligations = 1

    def __init__(self, cls, spec, needs_k=False, weighted=False):
        self.cls, self.spec, self.needs_k, self.weighted = cls, spec, needs_k, weighted
        self.target = f"prtpy/objectives.py::{cls}.value_to_minimize"

    def shapes(self, level):
        out = []
        for n in range(1, NMAX.get(level, 5) + 1):
            for seqtype in ("list", "tuple", "ndarray"):
                for flag in (False, True):
                    if self.weighted and flag:
                        continue
                    ks = range(1, KMAX.get(level, 6) + 1) if self.needs_k else [None]
                    for k in ks:
                        if seqtype != "list" and k is not None and k not in (1, n, n + 1):
                            continue
                        out.append((n, seqtype, flag, k))
        return out

    def shape_text(self, shape):
        n, seqtype, flag, k = shape
        return f"len={n} {seqtype} sorted_flag={flag}" + (f" k={k}" if k is not None else "")

    def make_args(self, it, shape):
        n, seqtype, flag, k = shape
        xs = sum_vector(it, n, sorted_=flag)
        cls = it.get_function(f"prtpy/objectives.py::{self.cls}")
        ctor = []
        self._w = None
        if self.needs_k:
            ctor = [k]
        if self.weighted:
            ws = [z3.Int(f"w{i}") for i in range(n)]
            for w in ws:
                it.assume(w > 0)
            ctor = [PList([SV(w) for w in ws])]
            self._w = ws
        obj = it.instantiate(cls, ctor, {})
        self._xs = xs
        return {"__self__": obj, "sums": as_seq(xs, seqtype), "are_sums_in_ascending_order": flag}

    def post(self, c, kind, res):
        if kind != "return":
            return []
        n, seqtype, flag, k = self._shape
        r = term_of(res)
        return [("C20:documented-quantity", self.spec(r, self._xs, k, self._w))]

    def witness(self, it, model, args):
        cz = Concretizer(model)
        w = {"sums": cz(args["sums"]), "flag": args["are_sums_in_ascending_order"], "cls": self.cls, "shape": list(self._shape),
             "predicted": cz(getattr(it, "last_result", None))}
        if self._w:
            w["weights"] = [cz(SV(x)) for x in self._w]
        return jsonable(w)

    def real(self, w):
        import numpy as np, prtpy.objectives as O
        w = unjson(w)
        n, seqtype, flag, k = w["shape"]
        cls = getattr(O, w["cls"])
        obj = cls(k) if self.needs_k else cls(w["weights"]) if self.weighted else cls()
        s = w["sums"]
        s = list(s) if seqtype == "list" else tuple(s) if seqtype == "tuple" else np.array(s)
        return obj.value_to_minimize(s, flag) if flag else obj.value_to_minimize(s)

    def run_shape(self, shape):
        self._shape = shape


def _with_shape(cls):
    """make_args needs the shape in post: remember it"""
    orig = cls.make_args

    def make_args(self, it, shape):
        self._shape = shape
        return orig(self, it, shape)
    cls.make_args = make_args
    return cls


ObjectiveValue = _with_shape(ObjectiveValue)

max_smallest = ObjectiveValue("MaximizeTheSmallestSum", lambda r, xs, k, w: r == -zmin(xs))
min_largest = ObjectiveValue("MinimizeTheLargestSum", lambda r, xs, k, w: r == zmax(xs))
min_difference = ObjectiveValue("MinimizeTheDifference", lambda r, xs, k, w: r == zmax(xs) - zmin(xs))
k_smallest = ObjectiveValue("MaximizeKSmallestSums", lambda r, xs, k, w: k_extreme_sum(r, xs, min(k, len(xs)), True, -1), needs_k=True)
k_largest = ObjectiveValue("MinimizeKLargestSums", lambda r, xs, k, w: k_extreme_sum(r, xs, min(k, len(xs)), False, 1), needs_k=True)
weighted = ObjectiveValue("MaximizeSmallestWeightedSum",
                          lambda r, xs, k, w: z3.And(z3.Or([r == -(z3.ToReal(x) / z3.ToReal(y)) for x, y in zip(xs, w)]),
                                                     z3.And([-r <= z3.ToReal(x) / z3.ToReal(y) for x, y in zip(xs, w)])), weighted=True)

VALUE_CONTRACTS = [("contracts.objectives", n) for n in ("max_smallest", "min_largest", "min_difference", "k_smallest", "k_largest", "weighted")]


# ------------------------------------------------------------------------------------------------ lower bounds (C13)
@_with_shape
class LowerBound(FunctionContract):
    """for sorted integer sums s, remaining total R >= 0 and EVERY integer completion f >= s with sum(f) = sum(s) + R:
           lower_bound(s, R, flag) <= objective(f);   and the value does not depend on the flag.
    The completion f is a vector of free symbols constrained only by the precondition (= universally quantified)."""
    tier = "T2"
    min_obligations = 2

    def __init__(self, cls, objective_of, uses=()):
        self.cls, self.objective_of = cls, objective_of
        self.target = f"prtpy/objectives.py::{cls}.lower_bound"
        self.uses = list(uses)

    def shapes(self, level):
        return [(k, flag) for k in range(1, (6 if level == "quick" else 7) + 1) for flag in (True, False)]

    def shape_text(self, shape):
        return f"numbins={shape[0]} sorted_flag={shape[1]}"

    def make_args(self, it, shape):
        k, flag = shape
        xs = sum_vector(it, k, sorted_=True)
        R = z3.Int("R")
        it.assume(R >= 0)
        fs = [z3.Int(f"f{i}") for i in range(k)]
        it.assume(z3.And([f >= x for f, x in zip(fs, xs)] + [sum(fs) == sum(xs) + R]))
        cls = it.get_function(f"prtpy/objectives.py::{self.cls}")
        self._xs, self._R, self._fs = xs, R, fs
        it.ghost = {"xs": xs, "R": R, "fs": fs}
        return {"__self__": it.instantiate(cls, [], {}), "sums": PList([SV(x) for x in xs]), "sum_of_remaining_items": SV(R),
                "are_sums_in_ascending_order": flag}

    def post(self, c, kind, res):
        if kind != "return":
            return []
        k, flag = self._shape
        xs, R = self._xs, self._R
        lb = term_of(res)
        out = [("C13:admissible", lb <= self.objective_of(self._fs))]
        if flag:
            it = c.it
            f = it.get_function(self.target)
            other = it.call(f, [c.final["__self__"], PList([SV(x) for x in xs]), SV(R), False])
            out.append(("C13:flag-independent", term_of(other) == lb))
        return out

    def apply_at_call(self, it, f, args, kwargs):
        """call-site form: for the SAME instance (sums, R) the callee's proved contract gives  result <= objective(f)  for the
        caller's completion f, and the result is a function of (sums, R) alone (flag-independence was proved for the callee)."""
        selfobj, sums, R = args[0], args[1], args[2]
        g = getattr(it, "ghost", None)
        if g is None:
            raise Unsupported("lower_bound contract applied outside a lower-bound proof")
        elems = it.iterate(sums)
        if len(elems) != len(g["xs"]):
            raise Unsupported("lower_bound called by contract on a different vector")
        same_inst = z3.And([term_of(e) == x for e, x in zip(elems, g["xs"])] + [term_of(R) == g["R"]])
        it.prove(f"{it.root.split('::')[1]}/call:{self.cls}.lower_bound/requires/same-instance", same_inst, kind="pre")
        F = z3.Function(f"LB_{self.cls}_{len(elems)}", *([L.IntS] * (len(elems) + 1)), L.RealS)
        res = F(*g["xs"], g["R"])
        it.assume(res <= self.objective_of(g["fs"]))
        return SV(res)

    def witness(self, it, model, args):
        cz = Concretizer(model)
        return jsonable({"sums": cz(args["sums"]), "R": cz(args["sum_of_remaining_items"]), "flag": args["are_sums_in_ascending_order"], "cls": self.cls,
                         "completion_f": [cz(SV(x)) for x in self._fs], "predicted": cz(getattr(it, "last_result", None))})

    def real(self, w):
        import prtpy.objectives as O
        w = unjson(w)
        return getattr(O, w["cls"])().lower_bound(list(w["sums"]), w["R"], w["flag"])

    def confirm(self, w, real):
        """the counter-model is genuine iff the REAL bound exceeds the objective value of the (feasible) completion in the model"""
        f, s = w["completion_f"], w["sums"]
        if isinstance(real, dict) or not (all(a >= b for a, b in zip(f, s)) and sum(f) == sum(s) + w["R"]):
            return False
        obj = {"MaximizeTheSmallestSum": -min(f), "MinimizeTheLargestSum": max(f), "MinimizeTheDifference": max(f) - min(f)}[w["cls"]]
        return float(real) > obj or (w.get("predicted") is not None and same(w["predicted"], real) and False)


lb_max_smallest = LowerBound("MaximizeTheSmallestSum", lambda fs: -zmin(fs))
lb_min_largest = LowerBound("MinimizeTheLargestSum", lambda fs: zmax(fs))
lb_min_difference = LowerBound("MinimizeTheDifference", lambda fs: zmax(fs) - zmin(fs), uses=[lb_max_smallest, lb_min_largest])
BOUND_CONTRACTS = [("contracts.objectives", n) for n in ("lb_max_smallest", "lb_min_largest", "lb_min_difference")]


# ------------------------------------------------------------------------------------------------ unbounded vector length (T1) for the three extremum objectives
class ObjectiveValueT1(FunctionContract):
    """value_to_minimize on a sums vector of ARBITRARY length (symbolic-length sequence of non-negative reals): -min, max, max-min;
    and the fast path (sums declared sorted) returns the same whenever the vector really is sorted"""
    tier = "T1"
    min_obligations = 2

    def __init__(self, cls, kind):
        self.cls, self.kind = cls, kind
        self.target = f"prtpy/objectives.py::{cls}.value_to_minimize"

    def shapes(self, level):
        return [False, True]

    def shape_text(self, flag):
        return f"any length >= 1, sorted_flag={flag}"

    def make_args(self, it, flag):
        self._flag = flag
        arr, n = z3.Const("sums_arr", L.RSeq), z3.Int("sums_n")
        it.assume(n >= 1)
        k, a, b = L.fresh("k", L.IntS), L.fresh("a", L.IntS), L.fresh("b", L.IntS)
        it.assume(z3.ForAll([k], z3.Implies(z3.And(0 <= k, k < n), arr[k] >= 0)))
        if flag:
            it.assume(z3.ForAll([a, b], z3.Implies(z3.And(0 <= a, a <= b, b < n), arr[a] <= arr[b])))
        s = SSeq(arr, z3.IntVal(0), n, "num", "sums")
        s.frozen = True
        self._s = s
        cls = it.get_function(f"prtpy/objectives.py::{self.cls}")
        return {"__self__": it.instantiate(cls, [], {}), "sums": s, "are_sums_in_ascending_order": flag}

    def post(self, c, kind, res):
        if kind != "return":
            return []
        s, r = self._s, term_of(res)
        k = L.fresh("k", L.IntS)
        rng = lambda k: z3.And(s.lo <= k, k < s.hi)
        is_min = lambda m: z3.And(z3.Exists([k], z3.And(rng(k), s.arr[k] == m)), z3.ForAll([k], z3.Implies(rng(k), s.arr[k] >= m)))
        is_max = lambda m: z3.And(z3.Exists([k], z3.And(rng(k), s.arr[k] == m)), z3.ForAll([k], z3.Implies(rng(k), s.arr[k] <= m)))
        if self.kind == "min":
            goal = is_min(-r)
        elif self.kind == "max":
            goal = is_max(r)
        else:
            ka, kb = L.fresh("ka", L.IntS), L.fresh("kb", L.IntS)
            goal = z3.Exists([ka, kb], z3.And(rng(ka), rng(kb), r == s.arr[ka] - s.arr[kb],
                                              z3.ForAll([k], z3.Implies(rng(k), z3.And(s.arr[k] <= s.arr[ka], s.arr[k] >= s.arr[kb])))))
        return [("C20:documented-quantity(any-length)", goal)]


t1_max_smallest = ObjectiveValueT1("MaximizeTheSmallestSum", "min")
t1_min_largest = ObjectiveValueT1("MinimizeTheLargestSum", "max")
t1_min_difference = ObjectiveValueT1("MinimizeTheDifference", "diff")
VALUE_T1_CONTRACTS = [("contracts.objectives", n) for n in ("t1_max_smallest", "t1_min_largest", "t1_min_difference")]
