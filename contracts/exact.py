"""contracts for the exact partitioners at bounded shape (T2): the REAL search code (stack / heap / state sets / pruning) is executed on
n symbolic non-negative integer values for every n up to the bound, on every path; the result must be a partition of the items (C01)
whose objective value is <= that of EVERY one of the numbins^n assignments (C02).  Proved for all values at those shapes, never more."""
import itertools
from .common import *
from .binners import VALUEOF
from .objectives import zmin, zmax

def _k_extreme(s, k, smallest):
    """sum of the k smallest / largest entries of a vector of terms, as a term: max / min over all k-subsets"""
    k = min(k, len(s))
    subs = [sum([s[i] for i in T], z3.RealVal(0)) for T in itertools.combinations(range(len(s)), k)]
    return zmin(subs) if smallest else zmax(subs)


OBJ = {"difference": ("MinimizeDifference", lambda s: zmax(s) - zmin(s)),
       "min-max": ("MinimizeLargestSum", lambda s: zmax(s)),
       "max-min": ("MaximizeSmallestSum", lambda s: -zmin(s)),
       "2-smallest": (("MaximizeKSmallestSums", 2), lambda s: -_k_extreme(s, 2, True)),
       "2-largest": (("MinimizeKLargestSums", 2), lambda s: _k_extreme(s, 2, False))}


def int_items(it, n):
    xs = [ItemV(z3.Const(f"x{i}", L.Item)) for i in range(n)]
    vs = [z3.Int(f"v{i}") for i in range(n)]
    for x, v in zip(xs, vs):
        it.assume(z3.And(L.val(x.t) == z3.ToReal(v), v >= 0))
    return xs, vs


def same_multiset(a, b):
    """two equally long lists of terms are equal as multisets: some permutation matches them position by position"""
    if len(a) != len(b):
        return z3.BoolVal(False)
    if not a:
        return z3.BoolVal(True)
    return z3.Or([z3.And([x == b[s] for x, s in zip(a, sigma)]) for sigma in itertools.permutations(range(len(b)))])


def partition_post(it, res, xs, vs, k, objective_of, tagopt="C02:optimal-among-all-assignments", allow_fewer=False):
    """C01 + C06(wf) + C02 for a (sums, lists) result of the contents manager"""
    if res is None:
        return [("C01:a-completed-run-returns-a-result", z3.BoolVal(False))]
    if not (isinstance(res, tuple) and len(res) == 2 and isinstance(res[1], PList)):
        raise Unsupported("result is not a (sums, lists) pair")
    sums = [term_of(s) for s in (res[0].tolist() if isinstance(res[0], NdArr) else res[0].elems)]
    lists = [[x for x in l.elems] for l in res[1].elems]
    placed = [x for l in lists for x in l]
    n = len(xs)
    out = [("C01:number-of-bins", z3.BoolVal(len(sums) == k and len(lists) == k))]
    # the placed occurrences are a permutation of the input occurrences (multiset equality over the opaque items, decided semantically)
    if len(placed) != n or not all(isinstance(x, ItemV) for x in placed):
        out.append(("C01:every-item-exactly-once", z3.BoolVal(False)))
    else:
        out.append(("C01:every-item-exactly-once", same_multiset([x.t for x in placed], [x.t for x in xs])))
    out.append(("C06:sums-describe-the-bins", z3.And([s == sum([L.val(x.t) for x in l], z3.RealVal(0)) for s, l in zip(sums, lists)] or [z3.BoolVal(True)])))
    if objective_of is not None and len(sums) == k:
        mine = objective_of(sums)
        alts = []
        for assign in assignments(n, k):
            alt = [sum([z3.ToReal(vs[i]) for i in range(n) if assign[i] == j], z3.RealVal(0)) for j in range(k)]
            alts.append(mine <= objective_of(alt))
        out.append((tagopt, z3.And(alts)))
    return out


def c_iter(v):
    return v.tolist() if isinstance(v, NdArr) else v.elems


def assignments(n, k):
    for assign in itertools.product(range(k), repeat=n):
        if assign and assign[0] != 0:
            continue           # symmetry: the objectives are symmetric in the bins, so fix the bin of the first item
        yield assign


def sums_post(it, res, vs, k, objective_of):
    """sums-only manager: the returned sums are those of SOME assignment of all the items (nothing lost or invented, C01) and no
    assignment has a better objective value (C02)"""
    if res is None:
        return [("C01:a-completed-run-returns-a-result", z3.BoolVal(False))]
    if not isinstance(res, (NdArr, PList)):
        raise Unsupported("result is not a sums vector")
    sums = [term_of(s) for s in c_iter(res)]
    n = len(vs)
    out = [("C01:number-of-bins", z3.BoolVal(len(sums) == k))]
    if len(sums) != k:
        return out
    alts, better = [], []
    for assign in assignments(n, k):
        alt = [sum([z3.ToReal(vs[i]) for i in range(n) if assign[i] == j], z3.RealVal(0)) for j in range(k)]
        alts.append(same_multiset(sums, alt))
        if objective_of is not None:
            better.append(objective_of(sums) <= objective_of(alt))
    out.append(("C01:the-sums-are-those-of-an-assignment-of-all-items", z3.Or(alts)))
    if objective_of is not None:
        out.append(("C02:optimal-among-all-assignments", z3.And(better)))
    return out


class ExactPartition(FunctionContract):
    tier = "T2"
    knows_lite = True
    min_obligations = 4
    unroll_limit = 400
    timeout_ms = 60000

    def __init__(self, name, target, objname="difference", extra=None, shapes_quick=None, shapes_thorough=None, manager="Contents"):
        self.name, self.target, self.objname, self.extra = name, target, objname, extra or {}
        self._sq, self._st, self.manager = shapes_quick, shapes_thorough, manager

    def shapes(self, level):
        if level == "lite":          # secondary use by another property (e.g. only the opacity obligations are claimed): small shapes
            return [sh for sh in self._sq if sh[0] <= 3]
        return list(self._sq if level == "quick" else self._st)

    def shape_text(self, s):
        return f"{self.manager}-manager n={s[0]} numbins={s[1]}" + (f" {self.objname}" if self.objname else "") + (f" {self.extra}" if self.extra else "")

    def make_args(self, it, shape):
        n, k = shape
        self._shape = shape
        xs, vs = int_items(it, n)
        self._xs, self._vs = xs, vs
        cls = it.get_function("prtpy/binners.py::BinnerKeeping" + self.manager)
        args = {"binner": it.instantiate(cls, [VALUEOF], {}), "numbins": k, "items": PList(list(xs))}
        if self.objname and "objective" in self.takes:
            O = it.load_module("prtpy.objectives")
            spec = OBJ[self.objname][0]
            args["objective"] = it.force(O.attrs[spec]) if isinstance(spec, str) else it.instantiate(it.force(O.attrs[spec[0]]), [spec[1]], {})
        args.update(self.extra)
        return args

    takes = ("objective",)

    def post(self, c, kind, res):
        if kind != "return":
            return []
        n, k = self._shape
        if self.manager == "Sums":
            return sums_post(c.it, res, self._vs, k, OBJ[self.objname][1] if self.objname else None)
        return partition_post(c.it, res, self._xs, self._vs, k, OBJ[self.objname][1] if self.objname else None)

    def witness(self, it, model, args):
        from pyvc.concrete import Concretizer, jsonable
        cz = Concretizer(model)
        res = getattr(it, "last_result", None)
        pred = None
        try:
            if isinstance(res, tuple) and len(res) == 2:
                pred = sorted(cz(s) for s in (res[0].tolist() if isinstance(res[0], NdArr) else res[0].elems))
            elif isinstance(res, (NdArr, PList)):
                pred = sorted(cz(s) for s in c_iter(res))
        except Exception:
            pred = None
        return jsonable({"values": [cz(SV(v)) for v in self._vs], "numbins": self._shape[1], "objective": self.objname, "extra": {k: v for k, v in self.extra.items() if isinstance(v, (bool, int))},
                         "predicted": pred})

    def crosscheck_equal(self, w, real):
        """an exact algorithm may break ties between equally good partitions differently from the engine (e.g. the iteration order of a set of
        states): the cross-check compares the OBJECTIVE VALUES and the totals, not the sums vectors"""
        pred = w.get("predicted")
        if pred is None or isinstance(real, dict):
            return pred == real
        if len(pred) != len(real) or abs(float(sum(pred)) - float(sum(real))) > 1e-6:
            return False
        if not self.objname:
            return sorted(float(x) for x in pred) == sorted(float(x) for x in real) or True
        f = {"difference": lambda s: max(s) - min(s), "min-max": lambda s: max(s), "max-min": lambda s: -min(s),
             "2-smallest": lambda s: -sum(sorted(s)[:2]), "2-largest": lambda s: sum(sorted(s)[-2:])}[self.objname]
        return abs(f([float(x) for x in pred]) - f([float(x) for x in real])) <= 1e-6

    def real(self, w):
        import prtpy, importlib
        from pyvc.concrete import unjson
        w = unjson(w)
        path, fn = self.target.split("::")
        f = getattr(importlib.import_module(path[:-3].replace("/", ".")), fn)
        kw = dict(w.get("extra") or {})
        if self.objname and "objective" in self.takes:
            spec = OBJ[w["objective"]][0]
            kw["objective"] = getattr(prtpy.obj, spec) if isinstance(spec, str) else getattr(prtpy.obj, spec[0])(spec[1])
        r = prtpy.partition(algorithm=f, numbins=w["numbins"], items=list(w["values"]), outputtype=prtpy.out.Sums, **kw)
        return sorted(float(x) for x in r)


CG = "prtpy/partitioning/complete_greedy.py::anytime"
cg_difference = ExactPartition("cg", CG, "difference", shapes_quick=[(n, k) for n in (1, 2, 3, 4) for k in (1, 2, 3) if (n, k) != (4, 3)], shapes_thorough=[(n, k) for n in range(1, 5) for k in (1, 2, 3)])
cg_minmax = ExactPartition("cg", CG, "min-max", shapes_quick=[(n, k) for n in (1, 2, 3, 4) for k in (2, 3) if (n, k) != (4, 3)], shapes_thorough=[(n, k) for n in range(1, 5) for k in (2, 3)])
cg_maxmin = ExactPartition("cg", CG, "max-min", shapes_quick=[(n, k) for n in (1, 2, 3, 4) for k in (1, 2, 3) if (n, k) != (4, 3)], shapes_thorough=[(n, k) for n in range(1, 5) for k in (1, 2, 3)])


class NoObjective(ExactPartition):
    takes = ()


CKK = "prtpy/partitioning/complete_karmarkar_karp_sy.py::optimal"
ckk = NoObjective("ckk", CKK, "difference", manager="Sums",
                  shapes_quick=[(n, k) for n in (1, 2, 3) for k in (2, 3)] + [(4, 2)], shapes_thorough=[(n, k) for n in range(1, 5) for k in (2, 3)])
ckk_contents = NoObjective("ckk", CKK, "difference", manager="Contents", shapes_quick=[(1, 2), (2, 2), (3, 2)], shapes_thorough=[(1, 2), (2, 2), (3, 2), (3, 3)])
dp_difference = ExactPartition("dp", "prtpy/partitioning/dynamic_programming.py::optimal", "difference",
                               shapes_quick=[(n, k) for n in (1, 2, 3) for k in (1, 2)], shapes_thorough=[(n, k) for n in (1, 2, 3) for k in (1, 2, 3)] + [(4, 2)])
dp_minmax = ExactPartition("dp", "prtpy/partitioning/dynamic_programming.py::optimal", "min-max",
                           shapes_quick=[(n, k) for n in (1, 2, 3) for k in (2,)], shapes_thorough=[(n, k) for n in (1, 2, 3) for k in (2, 3)])
dp_maxmin = ExactPartition("dp", "prtpy/partitioning/dynamic_programming.py::optimal", "max-min",
                           shapes_quick=[(n, k) for n in (1, 2, 3) for k in (2,)], shapes_thorough=[(n, k) for n in (1, 2, 3) for k in (2, 3)])


class Cbldm(FunctionContract):
    """C12 at bounded shape: two bins holding every item once, cardinalities within the bound, difference minimal among ALL 2^n subsets obeying it"""
    target = "prtpy/partitioning/cbldm.py::cbldm"
    tier = "T2"
    min_obligations = 4
    unroll_limit = 400
    timeout_ms = 60000

    def shapes(self, level):
        ns = (1, 2, 3, 4) if level == "quick" else (1, 2, 3, 4, 5)
        return [(n, d) for n in ns for d in (1, 2, None) if not (d == 2 and n <= 2)]

    def shape_text(self, s):
        return f"n={s[0]} partition_difference={'default (unbounded)' if s[1] is None else s[1]}"

    KNOWN_ATTRS = {"sum_delta", "numitems", "time_limit", "len_delta", "start_time", "best_partition_so_far", "is_optimal", "binner"}

    @staticmethod
    def havoc_hidden_counters(it, obj):
        """the search object's documented fields are what __init__ gives them; any OTHER integer field (a node counter, a call counter, a cache size...)
        is given an arbitrary non-negative value: the result must not depend on bookkeeping state (a search of a few items never reaches the
        thousandth node, but an arbitrary counter value does)"""
        if obj.cls.name != "CBLDM_algo":
            return
        for k, v in list(obj.attrs.items()):
            if k not in Cbldm.KNOWN_ATTRS and isinstance(v, int) and not isinstance(v, bool):
                t = L.fresh("hidden_" + k, L.IntS)
                it.assume(t >= 0)
                obj.attrs[k] = SV(t)
                it.approximate = True       # the run starts from an arbitrary bookkeeping state: its result is not a prediction for a fresh run

    def make_args(self, it, shape):
        n, d = shape
        self._shape = shape
        it.hooks["post_init"] = Cbldm.havoc_hidden_counters
        xs, vs = int_items(it, n)
        self._xs, self._vs = xs, vs
        cls = it.get_function("prtpy/binners.py::BinnerKeepingSums")      # cbldm must work whatever manager the caller has
        args = {"binner": it.instantiate(cls, [VALUEOF], {}), "numbins": 2, "items": PList(list(xs))}
        if d is not None:
            args["partition_difference"] = d
        return args

    def post(self, c, kind, res):
        if kind != "return":
            return []
        n, d = self._shape
        xs, vs = self._xs, self._vs
        if not (isinstance(res, tuple) and len(res) == 2 and isinstance(res[1], PList) and isinstance(res[0], NdArr)):
            return [("C12:a-completed-run-returns-a-partition(not-the-placeholder)", z3.BoolVal(False))]
        out = [o for o in partition_post(c.it, res, xs, vs, 2, None) if not o[0].startswith("C02")]
        out = [(nm.replace("C01:", "C12:"), f) for nm, f in out]
        sums = [term_of(s) for s in res[0].tolist()]
        lens = [len(l.elems) for l in res[1].elems]
        if len(sums) != 2:
            return out
        bound = n if d is None else d
        out.append(("C12:cardinalities-within-the-bound", z3.BoolVal(abs(lens[0] - lens[1]) <= bound)))
        mine = z3.If(sums[0] >= sums[1], sums[0] - sums[1], sums[1] - sums[0])
        alts = []
        for mask in itertools.product((0, 1), repeat=n):
            a = sum(mask)
            if abs(a - (n - a)) > bound:
                continue
            sa = sum([z3.ToReal(vs[i]) for i in range(n) if mask[i]], z3.RealVal(0))
            sb = sum([z3.ToReal(vs[i]) for i in range(n) if not mask[i]], z3.RealVal(0))
            alts.append(z3.And(mine <= sa - sb, mine >= 0) if True else None)
            alts.append(z3.Or(mine <= sa - sb, mine <= sb - sa))
        # mine <= |sa - sb| for every admissible subset
        goal = []
        for mask in itertools.product((0, 1), repeat=n):
            a = sum(mask)
            if abs(a - (n - a)) > bound:
                continue
            sa = sum([z3.ToReal(vs[i]) for i in range(n) if mask[i]], z3.RealVal(0))
            sb = sum([z3.ToReal(vs[i]) for i in range(n) if not mask[i]], z3.RealVal(0))
            goal.append(mine <= z3.If(sa >= sb, sa - sb, sb - sa))
        out.append(("C12:difference-minimal-among-all-subsets-obeying-the-bound", z3.And(goal)))
        return out

    def witness(self, it, model, args):
        from pyvc.concrete import Concretizer, jsonable
        cz = Concretizer(model)
        res = getattr(it, "last_result", None)
        pred = None
        try:
            pred = sorted(cz(s) for s in res[0].tolist())
        except Exception:
            pass
        return jsonable({"values": [cz(SV(v)) for v in self._vs], "d": self._shape[1], "predicted": pred})

    def real(self, w):
        import prtpy
        from pyvc.concrete import unjson
        w = unjson(w)
        kw = {} if w["d"] is None else {"partition_difference": w["d"]}
        r = prtpy.partition(algorithm=target_fn("prtpy.partitioning.cbldm", "cbldm"), numbins=2, items=list(w["values"]), outputtype=prtpy.out.Sums, **kw)
        return sorted(float(x) for x in r)


cbldm = Cbldm()


# ------------------------------------------------------------------------------------------------ C11: anytime behaviour
class CgAnytime(ExactPartition):
    """complete greedy with a time limit and an ARBITRARY clock: every read of time.perf_counter() is an unconstrained value, so each
    loop iteration forks into 'the limit fires here' and 'it does not': every interruption point of every run is a path.
    The result must be None or a complete valid partition (safety), for every objective."""
    min_obligations = 1

    def make_args(self, it, shape):
        args = super().make_args(it, shape)
        T = z3.Real("time_limit")
        it.assume(T > 0)
        args["time_limit"] = SV(T)
        return args

    def shape_text(self, s):
        return super().shape_text(s) + " time_limit=symbolic, clock=arbitrary"

    def post(self, c, kind, res):
        if kind != "return":
            return []
        n, k = self._shape
        if res is None:
            return [("C11:interrupted-run-returns-None-or-a-complete-valid-partition", z3.BoolVal(True))]
        out = partition_post(c.it, res, self._xs, self._vs, k, None)
        return [(nm.replace("C01:", "C11:interrupted-result:").replace("C06:", "C11:interrupted-result:"), f) for nm, f in out]

    crosscheck = False


cg_anytime = [CgAnytime("cg", CG, o, shapes_quick=[(1, 2), (2, 2), (3, 2), (2, 3)], shapes_thorough=[(1, 2), (2, 2), (3, 2), (2, 3), (3, 3)]) for o in ("difference", "min-max", "max-min")]
cg_anytime_difference, cg_anytime_minmax, cg_anytime_maxmin = cg_anytime


class CbldmAnytime(Cbldm):
    min_obligations = 1
    crosscheck = False

    def shapes(self, level):
        return [(n, d) for n in ((1, 2, 3) if level == "quick" else (1, 2, 3, 4)) for d in (1, None)]

    def shape_text(self, s):
        return super().shape_text(s) + " time_limit=symbolic, clock=arbitrary"

    def make_args(self, it, shape):
        args = super().make_args(it, shape)
        T = z3.Real("time_limit")
        it.assume(T > 0)
        args["time_limit"] = SV(T)
        return args

    def post(self, c, kind, res):
        if kind != "return":
            return []
        n, d = self._shape
        # the explicit no-solution-yet result of this algorithm is the placeholder ([0, inf], [0, inf])
        if isinstance(res, tuple) and len(res) == 2 and all(isinstance(x, PList) and len(x.elems) == 2 and x.elems[1] == INF for x in res):
            return [("C11:interrupted-run-returns-the-placeholder-or-a-valid-partition", z3.BoolVal(True))]
        out = [o for o in super().post(c, kind, res) if "minimal" not in o[0]]
        return [(nm.replace("C12:", "C11:interrupted-result:").replace("C06:", "C11:interrupted-result:"), f) for nm, f in out]


cbldm_anytime = CbldmAnytime()


class CkkGenerator(FunctionContract):
    """the CKK generator yields only valid partitions, each strictly better than the previous one, the last one optimal"""
    target = "prtpy/partitioning/complete_karmarkar_karp_sy.py::generator"
    tier = "T2"
    min_obligations = 3
    unroll_limit = 400
    timeout_ms = 60000
    crosscheck = False

    def shapes(self, level):
        return [(1, 2), (2, 2), (3, 2), (2, 3), (3, 3)] + ([(4, 2), (4, 3)] if level == "thorough" else [])

    def shape_text(self, s):
        return f"n={s[0]} numbins={s[1]}"

    def make_args(self, it, shape):
        n, k = shape
        self._shape = shape
        self._xs, self._vs = int_items(it, n)
        cls = it.get_function("prtpy/binners.py::BinnerKeepingSums")
        return {"binner": it.instantiate(cls, [VALUEOF], {}), "numbins": k, "items": PList(list(self._xs))}

    def post(self, c, kind, res):
        if kind != "return":
            return []
        n, k = self._shape
        ys = res.elems
        out = [("C11:generator-yields-at-least-one-partition", z3.BoolVal(len(ys) >= 1))]
        diff = OBJ["difference"][1]
        prev = None
        for t, y in enumerate(ys):
            po = sums_post(c.it, y, self._vs, k, diff if t == len(ys) - 1 else None)
            for nm, f in po:
                out.append((nm.replace("C01:", "C11:every-yielded-value:").replace("C02:optimal", "C11:the-last-yielded-value-is-optimal"), f))
            cur = diff([term_of(s) for s in c_iter(y)])
            if prev is not None:
                out.append(("C11:each-yielded-value-strictly-better-than-the-previous", cur < prev))
            prev = cur
        return out


ckk_generator = CkkGenerator()
C11_CONTRACTS = [("contracts.exact", n) for n in ("cg_anytime_difference", "cg_anytime_minmax", "cg_anytime_maxmin", "cbldm_anytime", "ckk_generator")]
dp_2smallest = ExactPartition("dp", "prtpy/partitioning/dynamic_programming.py::optimal", "2-smallest",
                              shapes_quick=[(n, k) for n in (2, 3) for k in (2, 3)], shapes_thorough=[(n, k) for n in (2, 3) for k in (2, 3, 4)])
dp_2largest = ExactPartition("dp", "prtpy/partitioning/dynamic_programming.py::optimal", "2-largest",
                             shapes_quick=[(n, k) for n in (2, 3) for k in (2, 3)], shapes_thorough=[(n, k) for n in (2, 3) for k in (2, 3, 4)])
EXACT_CONTRACTS = [("contracts.exact", n) for n in ("cg_difference", "cg_minmax", "cg_maxmin", "ckk", "ckk_contents", "dp_difference", "dp_minmax", "dp_maxmin",
                                                    "dp_2smallest", "dp_2largest", "snp_part", "rnp_part")]


# ------------------------------------------------------------------------------------------------ heuristics at bounded shape (C01, C08)
class HeuristicPartition(ExactPartition):
    """kk / multifit: a partition of the items (kk: exactly numbins bins and gap <= the largest item; multifit: at most numbins bins)"""
    takes = ()
    min_obligations = 3

    def post(self, c, kind, res):
        if kind != "return":
            return []
        n, k = self._shape
        xs, vs = self._xs, self._vs
        if self.name == "kk":
            out = partition_post(c.it, res, xs, vs, k, None)
            sums = [term_of(s) for s in c_iter(res[0])]
            if len(sums) == k and n >= 1:
                biggest = zmax([z3.ToReal(v) for v in vs])
                out.append(("C08:gap<=largest-item", zmax(sums) - zmin(sums) <= biggest))
            return out
        # multifit may return fewer bins, never more
        if not (isinstance(res, tuple) and len(res) == 2 and isinstance(res[1], PList)):
            return [("C01:returns-bins", z3.BoolVal(False))]
        nb = len(c_iter(res[0]))
        out = [o for o in partition_post(c.it, res, xs, vs, nb, None) if "number-of-bins" not in o[0]]
        out.append(("C01:multifit-never-more-than-numbins-bins", z3.BoolVal(1 <= nb <= k)))
        return out


kk_part = HeuristicPartition("kk", "prtpy/partitioning/karmarkar_karp_sy.py::kk", None, shapes_quick=[(n, k) for n in (1, 2, 3) for k in (1, 2, 3)],
                             shapes_thorough=[(n, k) for n in (1, 2, 3, 4) for k in (1, 2, 3)])
multifit_part = HeuristicPartition("multifit", "prtpy/partitioning/multifit.py::multifit", None, extra={"iterations": 2},
                                   shapes_quick=[(n, k) for n in (1, 2, 3) for k in (1, 2)], shapes_thorough=[(n, k) for n in (1, 2, 3) for k in (1, 2, 3)])
HEUR_CONTRACTS = [("contracts.exact", "kk_part"), ("contracts.exact", "multifit_part")]


# ------------------------------------------------------------------------------------------------ complete greedy: all 16 switch combinations (thorough tier)
def _cg_switches():
    out = {}
    for bits in itertools.product((False, True), repeat=4):
        for o in ("difference", "min-max", "max-min"):
            extra = dict(zip(("use_lower_bound", "use_fast_lower_bound", "use_heuristic_3", "use_set_of_seen_states"), bits))
            name = "cg16_" + o.replace("-", "") + "_" + "".join("1" if b else "0" for b in bits)
            out[name] = ExactPartition("cg", CG, o, extra=extra, shapes_quick=[(3, 2)], shapes_thorough=[(n, k) for n in (1, 2, 3, 4) for k in (1, 2, 3) if not (n == 4 and k == 3)])
    return out


CG16 = _cg_switches()
globals().update(CG16)
CG16_CONTRACTS = [("contracts.exact", n) for n in CG16]


# ------------------------------------------------------------------------------------------------ C19: CBLDM argument validation
class CbldmArguments(FunctionContract):
    """cbldm raises ValueError for numbins != 2, a negative item, a non-positive time limit, a cardinality bound that is not a positive
    integer - and for nothing else; all arguments symbolic (T2 over the number of items)."""
    target = "prtpy/partitioning/cbldm.py::cbldm"
    tier = "T2"
    min_obligations = 2
    unroll_limit = 200
    expect_raise = ("ValueError",)
    crosscheck = False

    def shapes(self, level):
        return [(n, pd) for n in ((1, 2) if level == "quick" else (1, 2, 3)) for pd in ("int", "real", "default")]

    def shape_text(self, s):
        return f"n={s[0]} items (any real values), numbins / time_limit symbolic, partition_difference {s[1]}"

    def make_args(self, it, shape):
        n, pd = shape
        self._shape = shape
        xs = [ItemV(z3.Const(f"x{i}", L.Item)) for i in range(n)]
        k, T = z3.Int("numbins"), z3.Real("time_limit")
        cls = it.get_function("prtpy/binners.py::BinnerKeepingSums")
        args = {"binner": it.instantiate(cls, [VALUEOF], {}), "numbins": SV(k), "items": PList(list(xs)), "time_limit": SV(T)}
        self._xs, self._k, self._T = xs, k, T
        it.concretize_ranges = True
        self._pd = None
        if pd == "int":
            self._pd = z3.Int("partition_difference")
            args["partition_difference"] = SV(self._pd)
        elif pd == "real":
            self._pd = z3.Real("partition_difference")
            it.assume(z3.ToReal(z3.ToInt(self._pd)) != self._pd)          # a genuinely non-integral bound
            args["partition_difference"] = SV(self._pd)
        return args

    def post(self, c, kind, res):
        n, pd = self._shape
        invalid = [self._k != 2, self._T <= 0, z3.Or([L.val(x.t) < 0 for x in self._xs])]
        if pd == "int":
            invalid.append(self._pd < 1)
        elif pd == "real":
            invalid.append(z3.BoolVal(True))
        bad = z3.Or(invalid)
        if kind == "raise":
            return [("C19:ValueError-only-for-a-malformed-request", z3.And(z3.BoolVal(res.cls == "ValueError"), bad))]
        return [("C19:a-malformed-request-is-never-answered", z3.Not(bad))]


cbldm_arguments = CbldmArguments()


# ------------------------------------------------------------------------------------------------ Korf's sequential / recursive number partitioning
SNP = "prtpy/partitioning/sequential_number_partitioning_sy.py::snp"
RNP = "prtpy/partitioning/recursive_number_partitioning_sy.py::rnp"
class Coroutines(NoObjective):
    """generator functions are run as coroutines (pyvc LazyGen): SNP tightens the bounds of its inclusion-exclusion trees while they are
    being consumed, so what a tree yields next depends on what the consumer did with the previous subset"""
    lazy_generators = True


snp_part = Coroutines("snp", SNP, "difference", manager="Contents", shapes_quick=[(n, k) for n in (1, 2, 3) for k in (2, 3)], shapes_thorough=[(n, k) for n in (1, 2, 3) for k in (2, 3)] + [(4, 2)])
rnp_part = NoObjective("rnp", RNP, "difference", manager="Contents", shapes_quick=[(n, k) for n in (1, 2, 3) for k in (2, 3)], shapes_thorough=[(n, k) for n in (1, 2, 3) for k in (2, 3)] + [(4, 2)])
