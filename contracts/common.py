"""helpers shared by the sidecar contracts"""
from __future__ import annotations
import z3
from pyvc import logic as L
from pyvc.values import *
from pyvc.absbin import ABins, ABinner, bag_union, bag_minus
from pyvc.interp import LoopSpec, Ctx
from pyvc.vc import FunctionContract

I = z3.IntVal


def item_seq(it, name="items", nonempty=True, nonneg=True):
    """a caller-owned sequence of opaque items of arbitrary length (list / dict_keys / ndarray alike: a sized re-iterable)"""
    arr, n = z3.Const(name + "_arr", L.ISeq), z3.Int(name + "_n")
    it.assume(n >= (1 if nonempty else 0))
    s = SSeq(arr, I(0), n, "item", name)
    s.frozen = True
    it.assume(L.empty_range(arr, I(0), I(0)))
    if nonneg:
        x = L.fresh("x", L.Item)
        it.assume(z3.ForAll([x], L.val(x) >= 0))
    return s


def in_range(j, n):
    return z3.And(0 <= j, j < n)


def forall_bins(b, body, nvars=1):
    vs = [L.fresh("j", L.IntS) for _ in range(nvars)]
    return z3.ForAll(vs, z3.Implies(z3.And([in_range(v, b.nb) for v in vs]), body(*vs)))


def bag_of(seq):
    return L.rbag(seq.arr, seq.lo, seq.hi)


def tot_of(seq):
    return L.rtot(seq.arr, seq.lo, seq.hi)


def all_items(seq, body):
    k = L.fresh("k", L.IntS)
    return z3.ForAll([k], z3.Implies(z3.And(seq.lo <= k, k < seq.hi), body(z3.Select(seq.arr, k), k)))


def target_fn(module, name):
    """the function under contract, imported by its module path (NOT through a public alias of prtpy/__init__.py: the engine verifies the
    function in that file, so the cross-check and the replay must run that function; what the public names are bound to is a separate obligation)"""
    import importlib
    return getattr(importlib.import_module(module), name)
