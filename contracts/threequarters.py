"""contract: prtpy/packing/cflz_covering.py::threequarters  (T2: every number of items up to the bound, ALL positive integer values and bin sizes;
the REAL manager class is executed, not the abstract one)"""
from .common import *
from .binners import VALUEOF
from pyvc.concrete import Concretizer, jsonable, unjson, same


class ThreeQuarters(FunctionContract):
    target = "prtpy/packing/cflz_covering.py::threequarters"
    tier = "T2"
    min_obligations = 4
    unroll_limit = 40

    def shapes(self, level):
        return list(range(0, (4 if level == "quick" else 6) + 1))

    def shape_text(self, n):
        return f"n={n} items"

    def make_args(self, it, n):
        self._n = n
        # C05's domain: positive INTEGER values and bin sizes (also what makes the float arithmetic of the real run exact in the cross-check)
        Bi = z3.Int("binsize")
        it.assume(Bi > 0)
        B = z3.ToReal(Bi)
        xs = [ItemV(z3.Const(f"x{i}", L.Item)) for i in range(n)]
        for i, x in enumerate(xs):
            v = z3.Int(f"v{i}")
            it.assume(z3.And(L.val(x.t) == z3.ToReal(v), v > 0))
        cls = it.get_function("prtpy/binners.py::BinnerKeepingContents")
        self._xs, self._B = xs, B
        return {"binner": it.instantiate(cls, [VALUEOF], {}), "binsize": SV(B), "items": PList(list(xs))}

    def post(self, c, kind, res):
        if kind != "return":
            return []
        it, B, xs = c.it, self._B, self._xs
        if not (isinstance(res, tuple) and len(res) == 2 and isinstance(res[1], PList)):
            return [("C05:returns-bins", z3.BoolVal(False))]
        sums = [term_of(s) for s in res[0].tolist()]
        lists = [[x for x in l.elems] for l in res[1].elems]
        placed = [x for l in lists for x in l]
        out = [("C05:every-bin-covered", z3.And([s >= B for s in sums] or [z3.BoolVal(True)])),
               ("C06:sums-describe-the-bins", z3.And([z3.BoolVal(len(sums) == len(lists))] + [s == sum([L.val(x.t) for x in l], z3.RealVal(0)) for s, l in zip(sums, lists)]))]
        # every placed occurrence is a DISTINCT position of one sorted copy of the input (a permutation of it, by sorted's contract),
        # or a distinct input occurrence itself: so no item is used twice and nothing is invented
        ids = [str(x.t) for x in placed if isinstance(x, ItemV)]
        inputs = [str(x.t) for x in xs]
        pools = [set(inputs)] + [set(r) for src, r in getattr(it, "sorted_log", []) if sorted(src) == sorted(inputs)]
        ok = len(ids) == len(placed) and len(set(ids)) == len(ids) and any(set(ids) <= pool for pool in pools)
        out.append(("C05:every-item-used-at-most-once", z3.BoolVal(ok)))
        total, used = sum([L.val(x.t) for x in xs], z3.RealVal(0)), sum(sums, z3.RealVal(0))
        out.append(("C05:unused-total<binsize", total - used < B))
        # C14: the bins are those of the reference transcription (spec/oracles.py), bin by bin and item by item, as values
        ref = it.get_function("spec/oracles.py::ref_cover_threequarters")
        rb = it.call(ref, [PList([SV(L.val(x.t)) for x in xs]), SV(B)])
        rbins = [[term_of(v) for v in b.elems] for b in rb.elems]
        same_shape = len(rbins) == len(lists) and all(len(a) == len(b) for a, b in zip(rbins, lists))
        eq = z3.And([rv == L.val(x.t) for a, b in zip(rbins, lists) for rv, x in zip(a, b)] or [z3.BoolVal(True)]) if same_shape else z3.BoolVal(False)
        out.append(("C14:bins-equal-the-reference-transcription", eq))
        return out

    def witness(self, it, model, args):
        cz = Concretizer(model)
        res = getattr(it, "last_result", None)
        pred = None
        if isinstance(res, tuple) and len(res) == 2:
            pred = sorted(cz(s) for s in res[0].tolist())
        return jsonable({"binsize": cz(args["binsize"]), "values": [cz(SV(L.val(x.t))) for x in self._xs], "predicted": pred})

    def real(self, w):
        import prtpy
        from fractions import Fraction
        w = unjson(w)
        vals = {f"i{k}": v for k, v in enumerate(w["values"])}
        sums = prtpy.pack(algorithm=target_fn("prtpy.packing.cflz_covering", "threequarters"), binsize=w["binsize"], items=vals, outputtype=prtpy.out.Sums)
        return sorted(sums)


threequarters = ThreeQuarters()
ALL = [("contracts.threequarters", "threequarters")]
