"""T3 sidecar contract (deal) for C17: the real integer_programming.optimal with the real CBC, plus a run-time monitor of
the *assumed* solver contract (status OPTIMAL => x integral, all constraints satisfied) on mip.Model.optimize."""
from __future__ import annotations
import itertools
from collections import Counter
from fractions import Fraction
import deal
import mip
import numpy as np
from prtpy import outputtypes as out, objectives as obj, BinnerKeepingContents
from spec import oracles as spec
from runtime.common import *
from runtime.harness import nontrivial


class SolverContractViolation(Exception):
    verif_kind = "solver-contract"


_orig_optimize = mip.Model.optimize
_state = {"preprocess": None, "fired": None}


def _monitored_optimize(self, *a, **kw):
    if _state["preprocess"] is not None:
        self.preprocess = _state["preprocess"]
    status = _orig_optimize(self, *a, **kw)
    if status == mip.OptimizationStatus.OPTIMAL:
        bad = []
        for v in self.vars:
            if v.var_type == mip.INTEGER and abs(v.x - round(v.x)) > 1e-6:
                bad.append(f"non-integral {v.name}={v.x}")
        for c in self.constrs:
            if c.expr.violation > 1e-6:
                bad.append(f"violated constraint {c.expr} (violation {c.expr.violation})")
        if bad:
            _state["fired"] = "; ".join(bad[:3])
    return status


mip.Model.optimize = _monitored_optimize


def _assignments(copies, k):
    """all ways to split copies[i] copies of each item over k bins."""
    per_item = []
    for c in copies:
        per_item.append([t for t in itertools.product(range(c + 1), repeat=k) if sum(t) == c])
    return itertools.product(*per_item)


def _cons_ok(cons, ws):
    if cons is None:
        return True
    kind, c = cons
    if kind == "min==":
        return ws[0] == c
    if kind == "max<=":
        return ws[-1] <= c
    if kind == "min>=":
        return ws[0] >= c
    raise KeyError(kind)


def _objval(objname, kparam, ws, weights):
    """objective evaluated on the (weighted) sums, which the model keeps in non-decreasing order."""
    return spec.objective_value(objname, ws, kparam)


def opt_weighted(values, copies, k, weights, objname, kparam, cons):
    best = None
    w = weights or [1] * k
    for asg in _assignments(copies, k):
        sums = [sum(asg[i][j] * values[i] for i in range(len(values))) for j in range(k)]
        ws = [Fraction(sums[j], 1) / Fraction(w[j]) for j in range(k)]
        if any(ws[j + 1] < ws[j] for j in range(k - 1)):
            continue
        if not _cons_ok(cons, ws):
            continue
        v = _objval(objname, kparam, ws, w)
        if best is None or v < best:
            best = v
    return best


def _mk_cons(cons):
    if cons is None:
        return {}
    kind, c = cons
    if kind == "min==":
        return {"additional_constraints": lambda sums: [sums[0] == c]}
    if kind == "max<=":
        return {"additional_constraints": lambda sums: [sums[-1] <= c]}
    if kind == "min>=":
        return {"additional_constraints": lambda sums: [sums[0] >= c]}


def _run_ilp(values, k, objname, kparam, copies, weights, cons, preprocess=None):
    kw = {"objective": objective(objname, kparam)}
    if copies is not None:
        kw["copies"] = copies if isinstance(copies, int) else {i: c for i, c in enumerate(copies)}
    if weights is not None:
        kw["weights"] = list(weights)
    kw.update(_mk_cons(cons))
    _state["preprocess"], _state["fired"] = preprocess, None
    try:
        bins = ilp(BinnerKeepingContents(), k, list(values), **kw)
        return ("ok", bins)
    except ValueError as e:
        return ("ValueError", str(e))
    finally:
        _state["preprocess"] = None


def _check(values, k, objname, kparam, copies, weights, cons, res):
    n = len(values)
    cp = [1] * n if copies is None else ([copies] * n if isinstance(copies, int) else list(copies))
    opt = opt_weighted(values, cp, k, weights, objname, kparam, cons)
    if res[0] == "ValueError":
        if opt is not None:
            return f"raised ValueError ({res[1][:80]}) although a feasible partition exists (optimum {opt})"
        return None
    if opt is None:
        return "returned a partition although no partition satisfies the constraints (must raise)"
    sums, lists = res[1]
    want = Counter()
    for i, v in enumerate(values):
        want[v] += cp[i]
    if flat_counter(lists) != want:
        return f"copies not honoured: placed {dict(flat_counter(lists))}, requested {dict(want)}"
    s = [num(x) for x in sums]
    if s != [sum(b) for b in lists]:
        return "sums do not describe the bins"
    w = weights or [1] * k
    ws = [Fraction(s[j]) / Fraction(w[j]) for j in range(k)]
    if weights is None and any(s[j + 1] < s[j] for j in range(k - 1)):
        return f"sums {s} are not in non-decreasing order"
    if weights is not None and any(ws[j + 1] < ws[j] for j in range(k - 1)):
        return f"bin i is not the bin divided by weight i: sums {s} with weights {w} give weighted sums {[str(x) for x in ws]} that are not non-decreasing"
    if not _cons_ok(cons, ws):
        return f"additional constraint {cons} violated by the returned (weighted) sums {[str(x) for x in ws]}"
    v = _objval(objname, kparam, ws, w)
    if v != opt:
        return f"objective value {v} on the (weighted) sums, optimum among admissible partitions is {opt}"
    return None


def _c17_ok(values, k, objname, kparam, copies, weights, cons):
    res = _run_ilp(values, k, objname, kparam, copies, weights, cons)
    fired = _state["fired"]
    r = _check(values, k, objname, kparam, copies, weights, cons, res)
    if r is None:
        # equal weights never change the result
        if weights is None and cons is None and k <= 3:
            r1 = _run_ilp(values, k, objname, kparam, copies, [1] * k, cons)
            if res[0] == "ok" and (r1[0] != "ok" or [num(x) for x in r1[1][0]] != [num(x) for x in res[1][0]]):
                return f"weights {[1] * k} change the result: {r1} vs {res}"
        return None
    if fired:
        raise SolverContractViolation(f"CBC returned OPTIMAL with an inconsistent answer ({fired}); prtpy-level symptom: {r}")
    # feasible but wrong: re-solve with CBC's preprocessing switched off to tell the solver's fault from prtpy's
    res2 = _run_ilp(values, k, objname, kparam, copies, weights, cons, preprocess=0)
    r2 = _check(values, k, objname, kparam, copies, weights, cons, res2)
    if r2 is None:
        raise SolverContractViolation(f"CBC with preprocessing answers wrongly, without preprocessing correctly; prtpy-level symptom: {r}")
    return r


@deal.pre(lambda values, k, objname, kparam, copies, weights, cons: all(isinstance(v, int) and 0 <= v <= 200 for v in values) and 1 <= k <= 4)
@deal.ensure(lambda values, k, objname, kparam, copies, weights, cons, result: result is None, message="C17: ILP options not honoured")
def c17_ilp(values, k, objname, kparam, copies, weights, cons):
    return _c17_ok(values, k, objname, kparam, copies, weights, cons)


def c17_case(inp):
    cons = tuple(inp["cons"]) if inp.get("cons") else None
    r = _c17_ok(inp["values"], inp["k"], inp.get("obj", "max-min"), inp.get("kparam"), inp.get("copies"), inp.get("weights"), cons)
    if r is not None:
        raise deal.PostContractError("C17: " + r)
    return nontrivial(inp["values"])
