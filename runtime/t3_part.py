"""T3 sidecar contracts (deal) for the partitioning properties C01, C02, C08, C11, C12.
Each `*_case(inp)` calls a deal-decorated wrapper of the real function; a ContractError is a violation on that input."""
from __future__ import annotations
import itertools, math
from collections import Counter
from fractions import Fraction
import deal
import numpy as np
from prtpy import outputtypes as out, objectives as obj
from spec import oracles as spec
from runtime.common import *
from runtime.harness import nontrivial


# ------------------------------------------------------------------------------------------------ C01
def _is_partition(res, mapping, names, k, multifit_like=False):
    if res is None:
        return False
    sums, lists = res
    if multifit_like:
        if not (1 <= len(lists) <= k):
            return False
    elif len(lists) != k or len(sums) != k:
        return False
    return flat_counter(lists) == Counter(names)


@deal.pre(lambda algo, values, k, fmt, kw: len(values) >= 1 and all(isinstance(v, int) and v >= 0 for v in values) and k >= 1)
@deal.ensure(lambda algo, values, k, fmt, kw, result: _is_partition(result[0], result[1], result[2], k, algo == "multifit"),
             message="C01: result is not a partition of the items into the requested number of bins")
def c01_partition(algo, values, k, fmt, kw):
    return run_partition(algo, values, k, fmt, **kw)


def c01_case(inp):
    kw = dict(inp.get("kw") or {})
    if "cg" in inp:
        kw.update(cg_kwargs(inp["cg"][0], tuple(inp["cg"][1])))
    c01_partition(inp["algo"], inp["values"], inp["k"], inp.get("fmt", "list"), kw)
    return nontrivial(inp["values"])


# ------------------------------------------------------------------------------------------------ C02
def _objective_of(res, objname, kparam):
    sums = [num(s) for s in res[0][0]]
    return spec.objective_value(objname, sums, kparam)


@deal.pre(lambda algo, values, k, objname, kparam, kw: len(values) >= 1 and all(isinstance(v, int) and v >= 0 for v in values) and k >= 1)
@deal.ensure(lambda algo, values, k, objname, kparam, kw, result:
             result[0] is not None and _objective_of(result, objname, kparam) == spec.opt_part(values, k, objname, kparam),
             message="C02: objective value of the returned partition differs from the optimum over all partitions")
def c02_optimal(algo, values, k, objname, kparam, kw):
    return run_partition(algo, values, k, "list", **kw)


def c02_case(inp):
    kw = {}
    algo, objname, kparam = inp["algo"], inp.get("obj", "difference"), inp.get("kparam")
    if algo == "cg":
        kw.update(cg_kwargs(objname, tuple(inp["cg"])))
    elif algo in ("dp", "ilp"):
        kw["objective"] = objective(objname, kparam)
    c02_optimal(algo, inp["values"], inp["k"], objname, kparam, kw)
    return nontrivial(inp["values"])


# ------------------------------------------------------------------------------------------------ C08
def _c08_ok(algo, values, k, res, iterations=10):
    sums = [num(s) for s in res[0][0]]
    lists = res[0][1]
    mx, mn = max(sums), min(sums)
    if algo in ("greedy", "kk", "roundrobin"):
        if mx - mn > max(values):
            return "gap between largest and smallest sum exceeds the largest item"
    if algo == "roundrobin":
        if any(sums[i] < sums[i + 1] for i in range(len(sums) - 1)):
            return "round-robin sums are not non-increasing in bin index"
        cards = [len(b) for b in lists]
        if max(cards) - min(cards) > 1:
            return "round-robin cardinalities differ by more than one"
    if k >= 2:
        if algo in ("greedy", "kk"):
            opt = spec.opt_part(values, k, "min-max")
            if mx * 3 * k > (4 * k - 1) * opt:
                return f"largest sum {mx} > (4/3-1/(3k))*OPT, OPT={opt}"
        if algo == "greedy":
            optmin = -spec.opt_part(values, k, "max-min")
            if mn * (4 * k - 2) < (3 * k - 1) * optmin:
                return f"smallest sum {mn} < (3k-1)/(4k-2)*OPT, OPT={optmin}"
        if algo == "multifit":
            opt = spec.opt_part(values, k, "min-max")
            if Fraction(mx) > (Fraction(122, 100) + Fraction(1, 2 ** iterations)) * opt:
                return f"multifit largest sum {mx} > (1.22+2^-{iterations})*OPT, OPT={opt}"
    return None


@deal.pre(lambda algo, values, k, fmt="list", iterations=None: len(values) >= 1 and all(isinstance(v, int) and v >= 0 for v in values) and k >= 1)
@deal.ensure(lambda algo, values, k, fmt="list", iterations=None, result=None: _c08_ok(algo, values, k, result, iterations or 10) is None, message="C08: worst-case guarantee violated")
def c08_guarantee(algo, values, k, fmt="list", iterations=None):
    """fmt: the guarantees are about VALUES, so they must hold for named items too (names unrelated to the values);
    iterations: MultiFit's bound is 1.22 + 2^-iterations for the number of iterations actually requested"""
    kw = {"iterations": iterations} if iterations is not None else {}
    return run_partition(algo, values, k, fmt, **kw)


def c08_case(inp):
    fmt, its = inp.get("fmt", "list"), inp.get("iterations")
    try:
        c08_guarantee(inp["algo"], inp["values"], inp["k"], fmt, its)
    except deal.PostContractError as e:
        r = run_partition(inp["algo"], inp["values"], inp["k"], fmt, **({"iterations": its} if its is not None else {}))
        raise deal.PostContractError(f"C08: {_c08_ok(inp['algo'], inp['values'], inp['k'], r, its or 10)}") from None
    return nontrivial(inp["values"])


def planted_equal_partition(rng, k, per_bin, total):
    """k bins each of total `total`, split into `per_bin` positive parts: OPT(min-max)=OPT(max-min)=total."""
    vals = []
    for _ in range(k):
        cuts = sorted(rng.sample(range(1, total), per_bin - 1))
        parts = [b - a for a, b in zip([0] + cuts, cuts + [total])]
        vals += parts
    rng.shuffle(vals)
    return vals


def _c08_planted_ok(algo, values, k, opt, res):
    sums = [num(s) for s in res[0][0]]
    mx, mn = max(sums), min(sums)
    if algo in ("greedy", "kk") and mx * 3 * k > (4 * k - 1) * opt:
        return False
    if algo == "greedy" and mn * (4 * k - 2) < (3 * k - 1) * opt:
        return False
    if algo == "multifit" and Fraction(mx) > (Fraction(122, 100) + Fraction(1, 2 ** 10)) * opt:
        return False
    if algo in ("greedy", "kk", "roundrobin") and mx - mn > max(values):
        return False
    return True


@deal.ensure(lambda algo, values, k, opt, result: _c08_planted_ok(algo, values, k, opt, result),
             message="C08: ratio bound violated on a planted instance with known optimum")
def c08_planted(algo, values, k, opt):
    return run_partition(algo, values, k, "list")


def c08_planted_case(inp):
    c08_planted(inp["algo"], inp["values"], inp["k"], inp["opt"])
    return True


# ------------------------------------------------------------------------------------------------ C12
def _c12_ok(values, d, res):
    sums, lists = res[0]
    if len(lists) != 2:
        return "not two bins"
    if flat_counter(lists) != Counter(values):
        return "not a partition of the items"
    if d is not None and abs(len(lists[0]) - len(lists[1])) > d:
        return "cardinality bound exceeded"
    if [num(s) for s in sums] != [sum(b) for b in lists]:
        return "sums do not describe the bins"
    diff = abs(sum(lists[0]) - sum(lists[1]))
    opt = spec.opt_2way(values, d)
    if diff != opt:
        return f"difference {diff} != optimum {opt} under the bound"
    return None


@deal.pre(lambda values, d: len(values) >= 1 and all(isinstance(v, int) and v >= 0 for v in values) and (d is None or d >= 1))
@deal.ensure(lambda values, d, result: _c12_ok(values, d, result) is None, message="C12: balanced partition contract violated")
def c12_cbldm(values, d):
    kw = {} if d is None else {"partition_difference": d}
    return run_partition("cbldm", values, 2, "list", **kw)


def c12_case(inp):
    try:
        c12_cbldm(inp["values"], inp["d"])
    except deal.PostContractError:
        kw = {} if inp["d"] is None else {"partition_difference": inp["d"]}
        r = run_partition("cbldm", inp["values"], 2, "list", **kw)
        raise deal.PostContractError("C12: " + str(_c12_ok(inp["values"], inp["d"], r))) from None
    return nontrivial(inp["values"])


# ------------------------------------------------------------------------------------------------ C11
class CountingClock:
    """Deterministic clock substituted for the `time` module attribute of an anytime algorithm's module: the n-th
    reading returns n, so `time_limit = L` fires exactly at the (L+1)-th limit test."""
    def __init__(self):
        self.n = 0

    def perf_counter(self):
        self.n += 1
        return float(self.n)


def with_clock(modname, fn):
    m = M(modname)
    saved = m.time
    clk = CountingClock()
    m.time = clk
    try:
        return fn(), clk.n
    finally:
        m.time = saved


def _cg_run(values, k, objname, sw, limit):
    """Calls the real anytime algorithm directly (prtpy.partition cannot represent the no-solution-yet result None)."""
    from prtpy import BinnerKeepingContents
    kw = cg_kwargs(objname, sw)
    if limit is not None:
        kw["time_limit"] = limit
    res, reads = with_clock("prtpy.partitioning.complete_greedy", lambda: cg(BinnerKeepingContents(), k, list(values), **kw))
    return res, reads


def _c11_cg_ok(values, k, objname, sw):
    """Enumerate every cut-off: with the counting clock, start=1, end=1+L, the t-th loop test reads t+1 > 1+L  <=> t > L."""
    full, reads = _cg_run(values, k, objname, sw, None)
    if full is None:
        return "unlimited run returned no result"
    optv = spec.opt_part(values, k, objname)
    if spec.objective_value(objname, [num(s) for s in full[0]]) != optv:
        return "unlimited run is not optimal"
    lpt_sums = sorted(sum(b) for b in spec.ref_lpt(values, k))
    prev, first_seen = None, False
    for L in range(0, reads + 1):
        res, _ = _cg_run(values, k, objname, sw, L)
        if res is None:
            if first_seen:
                return f"limit {L}: result disappeared after a solution had been returned for a smaller limit"
            continue
        sums, lists = res
        if len(lists) != k or flat_counter(lists) != Counter(values) or [num(s) for s in sums] != [sum(b) for b in lists]:
            return f"limit {L}: interrupted run returned an invalid partition {lists}"
        val = spec.objective_value(objname, [num(s) for s in sums])
        if not first_seen:
            first_seen = True
            h3 = sw[2] and objname == "min-max"
            # Korf's heuristic 3 (min-max only) completes a branch by putting all remaining items into the smallest bin:
            # the first leaf then has the LPT *value* but not necessarily the LPT sums.
            if (not h3 and sorted(num(s) for s in sums) != lpt_sums) or val != spec.objective_value(objname, lpt_sums):
                return f"limit {L}: first solution {sorted(num(s) for s in sums)} is not the LPT solution {lpt_sums}"
        if prev is not None and val > prev:
            return f"limit {L}: objective got worse ({prev} -> {val}) as the limit grew"
        prev = val
    if prev != optv:
        return "largest enumerated limit does not give the optimum"
    return None


@deal.pre(lambda values, k, objname, sw: len(values) >= 1 and k >= 1)
@deal.ensure(lambda values, k, objname, sw, result: result is None, message="C11 complete-greedy anytime contract violated")
def c11_cg(values, k, objname, sw):
    return _c11_cg_ok(values, k, objname, sw)


def c11_cg_case(inp):
    r = _c11_cg_ok(inp["values"], inp["k"], inp["obj"], tuple(inp["cg"]))
    if r is not None:
        raise deal.PostContractError("C11(cg): " + r)
    return nontrivial(inp["values"])


PLACEHOLDER = "placeholder"


def _cbldm_run(values, d, limit):
    from prtpy import BinnerKeepingContents
    kw = {}
    if d is not None:
        kw["partition_difference"] = d
    if limit is not None:
        kw["time_limit"] = limit
    res, reads = with_clock("prtpy.partitioning.cbldm", lambda: cbldm(BinnerKeepingContents(), 2, list(values), **kw))
    return res, reads


def _is_placeholder(res):
    sums, lists = res
    try:
        return list(sums) == [0, np.inf] and list(lists) == [0, np.inf]
    except Exception:
        return False


def _c11_cbldm_ok(values, d):
    full, reads = _cbldm_run(values, d, None)
    opt = spec.opt_2way(values, d)
    prev = None
    # start=1; the t-th test reads t+1; fires when t+1-1 >= L  <=> t >= L
    for L in list(range(1, reads + 2)) + [None]:
        res, _ = _cbldm_run(values, d, L)
        if _is_placeholder(res):
            if prev is not None:
                return f"limit {L}: placeholder returned after a partition had been returned for a smaller limit"
            continue
        sums, lists = res
        if len(lists) != 2 or flat_counter(lists) != Counter(values) or [num(s) for s in sums] != [sum(b) for b in lists]:
            return f"limit {L}: invalid partition {lists}"
        if d is not None and abs(len(lists[0]) - len(lists[1])) > d:
            return f"limit {L}: cardinality bound exceeded"
        val = abs(sum(lists[0]) - sum(lists[1]))
        if prev is not None and val > prev:
            return f"limit {L}: difference got worse ({prev} -> {val})"
        prev = val
    if prev != opt:
        return f"unlimited run gives {prev}, optimum is {opt}"
    return None


def c11_cbldm_case(inp):
    r = _c11_cbldm_ok(inp["values"], inp.get("d"))
    if r is not None:
        raise deal.PostContractError("C11(cbldm): " + r)
    return nontrivial(inp["values"])


def _c11_ckkgen_ok(values, k):
    from prtpy import BinnerKeepingContents
    binner = BinnerKeepingContents()
    prev = None
    last = None
    for part in ckk_generator(binner, k, list(values)):
        sums, lists = part
        if len(lists) != k or flat_counter(lists) != Counter(values) or [num(s) for s in sums] != [sum(b) for b in lists]:
            return f"generator yielded an invalid partition {lists}"
        diff = max(num(s) for s in sums) - min(num(s) for s in sums)
        if prev is not None and not diff < prev:
            return f"generator yielded {diff} after {prev}: not strictly better"
        prev = diff
        last = diff
    if last is None:
        return "generator yielded nothing"
    opt = spec.opt_part(values, k, "difference")
    if last != opt:
        return f"last yielded difference {last} != optimum {opt}"
    return None


def c11_ckkgen_case(inp):
    r = _c11_ckkgen_ok(inp["values"], inp["k"])
    if r is not None:
        raise deal.PostContractError("C11(ckk generator): " + r)
    return nontrivial(inp["values"])
