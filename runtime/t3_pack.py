"""T3 sidecar contracts (deal) for the packing / covering properties C03 C04 C05 C09 C10 C14 C19."""
from __future__ import annotations
from collections import Counter
from fractions import Fraction
import deal
import numpy as np
from prtpy import outputtypes as out
from spec import oracles as spec
from runtime.common import *
from runtime.harness import nontrivial


def _vals(inp):
    """values may be given as integers or as [numerator, denominator] pairs of dyadic fractions (exact in float64)."""
    s = inp.get("scale")
    return [v / s for v in inp["values"]] if s else list(inp["values"])


# ------------------------------------------------------------------------------------------------ C03
def _c03_ok(algo, values, B, fmt, res, count):
    (sums, lists), mapping, names = res
    bv = bins_values(lists, mapping)
    if any(Fraction(float(s)) > Fraction(float(B)) for s in sums):
        return "a bin sum exceeds the bin size"
    if any(sum(Fraction(x) for x in b) > Fraction(float(B)) for b in bv):
        return "the items of a bin total more than the bin size"
    got, want = flat_counter(lists), Counter(names)
    if algo == "bc":
        v = val_of(mapping)
        missing = want - got
        if (got - want) or any(v(x) != 0 for x in missing):
            return f"items lost or invented: returned {dict(got)}, input {dict(want)}"
    elif got != want:
        return f"items lost, duplicated or invented: returned {dict(got)}, input {dict(want)}"
    if len(values) > 0 and any(len(b) == 0 for b in lists) and not (algo == "bc" and all(x == 0 for x in values)):
        return "an empty bin in the packing of a non-empty input"
    if len(sums) != len(lists) or count != len(lists):
        return f"reported number of bins {count} != number of returned bins {len(lists)}"
    return None


@deal.pre(lambda algo, values, B, fmt: B > 0 and all(0 <= v <= B for v in values))
@deal.ensure(lambda algo, values, B, fmt, result: _c03_ok(algo, values, B, fmt, result[0], result[1]) is None,
             message="C03: not a feasible packing of exactly the input items")
def c03_pack(algo, values, B, fmt):
    res = run_pack(algo, values, B, fmt)
    count, _, _ = run_pack(algo, values, B, fmt, outputtype=out.BinCount)
    return res, count


def c03_case(inp):
    values = _vals(inp)
    B = inp["B"] / inp["scale"] if inp.get("scale") else inp["B"]
    try:
        c03_pack(inp["algo"], values, B, inp.get("fmt", "list"))
    except deal.PostContractError:
        res = run_pack(inp["algo"], values, B, inp.get("fmt", "list"))
        count, _, _ = run_pack(inp["algo"], values, B, inp.get("fmt", "list"), outputtype=out.BinCount)
        raise deal.PostContractError("C03: " + str(_c03_ok(inp["algo"], values, B, inp.get("fmt", "list"), res, count))) from None
    return nontrivial(inp["values"])


# ------------------------------------------------------------------------------------------------ C04
def _c04_ok(values, B, r):
    n_part, n_sums, n_count, n_ffd, n_bfd = r
    opt = spec.opt_bins(values, B)
    if not (n_part == n_sums == n_count):
        return f"bin count depends on the output type: Partition {n_part}, Sums {n_sums}, BinCount {n_count}"
    if n_part != opt:
        return f"bin-completion uses {n_part} bins, the optimum is {opt}"
    if n_part > n_ffd or n_part > n_bfd:
        return f"more bins ({n_part}) than FFD ({n_ffd}) / BFD ({n_bfd})"
    return None


@deal.pre(lambda values, B: isinstance(B, int) and B >= 1 and all(isinstance(v, int) and 1 <= v <= B for v in values) and len(values) >= 1)
@deal.ensure(lambda values, B, result: _c04_ok(values, B, result) is None, message="C04: bin-completion is not minimal / output types disagree")
def c04_bc(values, B):
    n_part = len(run_pack("bc", values, B, outputtype=out.Partition)[0])
    n_sums = len(run_pack("bc", values, B, outputtype=out.Sums)[0])
    n_count = run_pack("bc", values, B, outputtype=out.BinCount)[0]
    n_ffd = run_pack("ffd", values, B, outputtype=out.BinCount)[0]
    n_bfd = run_pack("bfd", values, B, outputtype=out.BinCount)[0]
    return n_part, n_sums, n_count, n_ffd, n_bfd


def c04_case(inp):
    try:
        c04_bc(inp["values"], inp["B"])
    except deal.PostContractError:
        raise deal.PostContractError("C04: " + str(_c04_ok(inp["values"], inp["B"], c04_bc.__wrapped__(inp["values"], inp["B"])))) from None
    return nontrivial(inp["values"])


# ------------------------------------------------------------------------------------------------ C05
def _c05_ok(values, B, res):
    (sums, lists), mapping, names = res
    bv = bins_values(lists, mapping)
    if any(num(s) < B for s in sums) or any(sum(b) < B for b in bv):
        return "a returned bin is not covered (sum < bin size)"
    got, want = flat_counter(lists), Counter(names)
    if got - want:
        return f"an item is used more often than it was given: {dict(got - want)}"
    v = val_of(mapping)
    unused = sum(v(x) * c for x, c in (want - got).items())
    if not unused < B:
        return f"unused items total {unused} >= bin size {B}"
    return None


@deal.pre(lambda algo, values, B, fmt: B > 0 and all(isinstance(v, int) and v >= 1 for v in values))
@deal.ensure(lambda algo, values, B, fmt, result: _c05_ok(values, B, result) is None, message="C05: not a valid cover wasting less than one bin")
def c05_cover(algo, values, B, fmt):
    return run_pack(algo, values, B, fmt)


def c05_case(inp):
    try:
        c05_cover(inp["algo"], inp["values"], inp["B"], inp.get("fmt", "list"))
    except deal.PostContractError:
        raise deal.PostContractError("C05: " + str(_c05_ok(inp["values"], inp["B"], run_pack(inp["algo"], inp["values"], inp["B"], inp.get("fmt", "list"))))) from None
    return nontrivial(inp["values"])


# ------------------------------------------------------------------------------------------------ C09
def _c09_ok(algo, values, B, res, with_opt=True):
    (sums, lists), mapping, names = res
    bv = bins_values(lists, mapping)
    fs = [sum(Fraction(x) for x in b) for b in bv]
    for a in range(len(bv)):
        for b in range(a + 1, len(bv)):
            if not fs[a] + Fraction(bv[b][0]) > Fraction(float(B)):
                return f"any-fit invariant broken: bin {a} (sum {fs[a]}) could have taken the first item {bv[b][0]} of bin {b}"
    if algo in ("ffd", "bfd"):
        flat = [x for b in bv for x in b]
    if with_opt:
        opt = spec.opt_bins([Fraction(v) for v in values], Fraction(float(B)))
        nb = len(bv)
        if nb > (17 * opt) // 10:
            return f"{nb} bins > floor(1.7*OPT), OPT={opt}"
        if algo == "ffd" and 9 * nb > 11 * opt + 6:
            return f"FFD uses {nb} bins > 11/9*OPT+6/9, OPT={opt}"
        if algo == "bfd" and 9 * nb > 11 * opt + 36:
            return f"BFD uses {nb} bins > 11/9*OPT+4, OPT={opt}"
    return None


@deal.pre(lambda algo, values, B, with_opt: B > 0 and all(0 <= v <= B for v in values))
@deal.ensure(lambda algo, values, B, with_opt, result: _c09_ok(algo, values, B, result, with_opt) is None, message="C09: any-fit invariant / bin-count bound violated")
def c09_fit(algo, values, B, with_opt):
    return run_pack(algo, values, B)


def c09_case(inp):
    values = _vals(inp)
    B = inp["B"] / inp["scale"] if inp.get("scale") else inp["B"]
    wo = inp.get("with_opt", True)
    try:
        c09_fit(inp["algo"], values, B, wo)
    except deal.PostContractError:
        raise deal.PostContractError("C09: " + str(_c09_ok(inp["algo"], values, B, run_pack(inp["algo"], values, B), wo))) from None
    return nontrivial(inp["values"])


@deal.ensure(lambda algo, values, B, opt, fmt, result: result <= (17 * opt) // 10 and (algo != "ffd" or 9 * result <= 11 * opt + 6) and (algo != "bfd" or 9 * result <= 11 * opt + 36),
             message="C09: bin-count bound violated on a planted perfect packing")
def c09_planted(algo, values, B, opt, fmt):
    return run_pack(algo, values, B, fmt, outputtype=out.BinCount)[0]


def c09_planted_case(inp):
    c09_planted(inp["algo"], inp["values"], inp["B"], inp["opt"], inp.get("fmt", "list"))
    return True


def planted_perfect_packing(rng, nbins, B, maxparts):
    vals = []
    for _ in range(nbins):
        p = rng.randint(1, maxparts)
        cuts = sorted(rng.sample(range(1, B), p - 1)) if p > 1 else []
        vals += [b - a for a, b in zip([0] + cuts, cuts + [B])]
    rng.shuffle(vals)
    return vals


# ------------------------------------------------------------------------------------------------ C10
def _c10_ok(algo, nb, opt):
    if nb > opt:
        return f"reports {nb} covered bins, more than OPT={opt}"
    if algo == "decreasing" and 2 * nb < opt - 1:
        return f"decreasing covers {nb} < (OPT-1)/2, OPT={opt}"
    if algo == "twothirds" and 3 * nb < 2 * (opt - 1):
        return f"two-thirds covers {nb} < 2/3*(OPT-1), OPT={opt}"
    if algo == "threequarters" and 4 * nb < 3 * opt - 16:
        return f"three-quarters covers {nb} < 3/4*OPT-4, OPT={opt}"
    return None


@deal.pre(lambda algo, values, B, opt, fmt: B > 0 and all(isinstance(v, int) and v >= 1 for v in values))
@deal.ensure(lambda algo, values, B, opt, fmt, result: _c10_ok(algo, result, opt if opt is not None else spec.opt_cover(values, B)) is None,
             message="C10: approximation guarantee of the covering heuristic violated")
def c10_cover(algo, values, B, opt, fmt):
    return run_pack(algo, values, B, fmt, outputtype=out.BinCount)[0]


def c10_case(inp):
    c10_cover(inp["algo"], inp["values"], inp["B"], inp.get("opt"), inp.get("fmt", "list"))
    return nontrivial(inp["values"])


# ------------------------------------------------------------------------------------------------ C14
REF = {"greedy": spec.ref_lpt, "roundrobin": spec.ref_roundrobin, "ff": spec.ref_first_fit, "ffd": spec.ref_ffd,
       "bf": spec.ref_best_fit, "bfd": spec.ref_bfd, "decreasing": spec.ref_cover_decreasing,
       "twothirds": spec.ref_cover_twothirds, "threequarters": spec.ref_cover_threequarters}
BINS_DETERMINED = {"roundrobin", "ff", "ffd", "decreasing", "twothirds", "threequarters"}


def _c14_ok(algo, values, param, res):
    (sums, lists), mapping, names = res
    bv = bins_values(lists, mapping)
    ref = REF[algo]([Fraction(v) for v in values] if any(isinstance(v, float) for v in values) else values, param)
    got_sums = sorted(Fraction(float(s)) for s in sums)
    ref_sums = sorted(Fraction(sum(b)) for b in ref)
    if got_sums != ref_sums:
        return f"sums {[str(s) for s in got_sums]} differ from the textbook rule's {[str(s) for s in ref_sums]}"
    if algo in BINS_DETERMINED:
        g = sorted(sorted(Fraction(x) for x in b) for b in bv)
        r = sorted(sorted(Fraction(x) for x in b) for b in ref)
        if g != r:
            return f"bins {bv} differ from the textbook rule's {ref}"
    return None


@deal.ensure(lambda algo, values, param, fmt, result: _c14_ok(algo, values, param, result) is None, message="C14: result differs from the textbook rule")
def c14_rule(algo, values, param, fmt):
    if algo in ("greedy", "roundrobin"):
        return run_partition(algo, values, param, fmt)
    return run_pack(algo, values, param, fmt)


def c14_case(inp):
    values = _vals(inp)
    param = inp["param"] / inp["scale"] if inp.get("scale") else inp["param"]
    try:
        c14_rule(inp["algo"], values, param, inp.get("fmt", "list"))
    except deal.PostContractError:
        raise deal.PostContractError("C14: " + str(_c14_ok(inp["algo"], values, param, c14_rule.__wrapped__(inp["algo"], values, param, inp.get("fmt", "list"))))) from None
    return nontrivial(inp["values"])


# ------------------------------------------------------------------------------------------------ C19
@deal.pre(lambda algo, values, B, fmt, ot: any(v > B for v in values))
@deal.raises(ValueError)
@deal.ensure(lambda algo, values, B, fmt, ot, result: False, message="C19: an oversize item was answered instead of refused")
def c19_oversize(algo, values, B, fmt, ot):
    return run_pack(algo, values, B, fmt, outputtype=getattr(out, ot))


def c19_case(inp):
    try:
        c19_oversize(inp["algo"], inp["values"], inp["B"], inp.get("fmt", "list"), inp.get("ot", "Partition"))
    except ValueError:
        return True
    raise deal.PostContractError("C19: no ValueError")


def _cbldm_bad(kind, values):
    from prtpy import BinnerKeepingContents, BinnerKeepingSums
    kw, k, vals = {}, 2, list(values)
    if kind[0] == "numbins":
        k = kind[1]
    elif kind[0] == "negative":
        vals = list(values); vals[kind[1] % len(vals)] = -1 - vals[kind[1] % len(vals)]
    elif kind[0] == "time_limit":
        kw["time_limit"] = kind[1]
    elif kind[0] == "partition_difference":
        kw["partition_difference"] = kind[1]
    return prtpy.partition(algorithm=cbldm, numbins=k, items=vals, outputtype=getattr(out, kind[2]) if len(kind) > 2 else out.Partition, **kw)


@deal.raises(ValueError)
@deal.ensure(lambda kind, values, result: False, message="C19: cbldm answered a malformed request")
def c19_cbldm(kind, values):
    return _cbldm_bad(kind, values)


def c19_cbldm_case(inp):
    try:
        c19_cbldm(tuple(inp["kind"]), inp["values"])
    except ValueError:
        return True
    raise deal.PostContractError("C19: no ValueError")


def c19_numitems_case(inp):
    from prtpy import BinnerKeepingSums
    b = BinnerKeepingSums()
    bins = b.new_bins(inp["k"])
    for j, v in enumerate(inp["values"]):
        b.add_item_to_bin(bins, v, j % inp["k"])
    try:
        r = b.numitems(bins, inp["j"] % inp["k"])
    except NotImplementedError:
        return True
    raise deal.PostContractError(f"C19: the sums-only bins-manager invented an item count {r!r}")
