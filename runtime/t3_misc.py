"""T3 sidecar contracts (deal) for C06 C07 C13 C15 C16 C17 C18 C20."""
from __future__ import annotations
import copy, itertools, math, random
from collections import Counter
from fractions import Fraction
import deal
import numpy as np
import prtpy
from prtpy import outputtypes as out, objectives as obj, BinnerKeepingContents, BinnerKeepingSums
from spec import oracles as spec
from runtime.common import *
from runtime.harness import nontrivial

SUMS_TYPES = ["Sums", "LargestSum", "SmallestSum", "ExtremeSums", "SortedSums", "Difference", "BinCount"]


def _call(kind, algo, values, param, fmt, ot, kw=None):
    kw = kw or {}
    if kind == "partition":
        return run_partition(algo, values, param, fmt, outputtype=ot, **kw)
    return run_pack(algo, values, param, fmt, outputtype=ot, **kw)


def _norm(x):
    if isinstance(x, (list, tuple, np.ndarray)):
        return [_norm(y) for y in x]
    return num(x)


# ------------------------------------------------------------------------------------------------ C06
def _c06_ok(kind, algo, values, param, fmt, kw):
    (full, mapping, names) = _call(kind, algo, values, param, fmt, out.PartitionAndSumsTuple, kw)
    sums, lists = full
    bv = bins_values(lists, mapping)
    if [Fraction(float(s)) for s in sums] != [sum((Fraction(x) for x in b), Fraction(0)) for b in bv]:
        return f"reported sums {list(sums)} are not the totals of the reported bins {bv}"
    plain = _call(kind, algo, values, param, fmt, out.Partition, kw)[0]
    if [list(b) for b in plain] != [list(b) for b in lists]:
        return "Partition output differs from the partition of PartitionAndSumsTuple"
    st = _call(kind, algo, values, param, fmt, out.PartitionAndSums, kw)[0]
    if _norm(st.sums) != _norm(sums) or [list(b) for b in st.lists] != [list(b) for b in lists]:
        return "PartitionAndSums output differs from PartitionAndSumsTuple"
    for name in SUMS_TYPES:
        T = getattr(out, name)
        try:
            want = ("ok", _norm(T.extract_output_from_sums(sums)))
        except ValueError:
            want = ("ValueError",)
        try:
            got = ("ok", _norm(_call(kind, algo, values, param, fmt, T, kw)[0]))
        except ValueError:
            got = ("ValueError",)
        if name == "Sums" and want[0] == "ok" and got[0] == "ok":
            if want[1] != got[1]:
                return f"output type Sums gives {got[1]}, the full partition output has sums {want[1]}"
            continue
        if want != got:
            return f"output type {name} gives {got}, computed from the full partition output: {want}"
    return None


@deal.ensure(lambda kind, algo, values, param, fmt, kw, result: result is None, message="C06: reported sums / derived outputs do not describe the returned bins")
def c06_outputs(kind, algo, values, param, fmt, kw):
    return _c06_ok(kind, algo, values, param, fmt, kw)


def c06_case(inp):
    kw = dict(inp.get("kw") or {})
    if "cg" in inp:
        kw.update(cg_kwargs(inp["cg"][0], tuple(inp["cg"][1])))
    if "obj" in inp:
        kw["objective"] = objective(inp["obj"], inp.get("kparam"))
    r = _c06_ok(inp["kind"], inp["algo"], inp["values"], inp["param"], inp.get("fmt", "list"), kw)
    if r is not None:
        raise deal.PostContractError("C06: " + r)
    return nontrivial(inp["values"])


# ------------------------------------------------------------------------------------------------ C07
def _c07_ok(kind, algo, values, param, kw, fmts=("list", "array", "dict", "intdict", "names")):
    ref = None
    for fmt in fmts:
        (sums, lists), mapping, names = _call(kind, algo, values, param, fmt, out.PartitionAndSumsTuple, kw)
        ssums = sorted(Fraction(float(s)) for s in sums)
        if ref is None:
            ref = ssums
        elif ssums != ref:
            return f"presentation {fmt} gives sums {[str(s) for s in ssums]}, the plain list gives {[str(s) for s in ref]}"
        # named result is a correct partition / packing / cover of the names whose values reproduce the sums
        got, want = flat_counter(lists), Counter(names)
        cp = kw.get("copies")
        if cp is not None:           # an option indexed by item POSITION: name i is due copies[i] times
            want = Counter({nm: (cp[i] if isinstance(cp, (list, tuple)) else cp) for i, nm in enumerate(names)}) if len(set(names)) == len(names) else None
        if want is None:
            pass                     # plain list with repeated values: occurrences are checked through the sums
        elif kind == "partition" or algo in PACKERS:
            if algo == "bc":
                v = val_of(mapping)
                if (got - want) or any(v(x) != 0 for x in (want - got)):
                    return f"presentation {fmt}: named result is not a packing of the names"
            elif got != want:
                return f"presentation {fmt}: named result {lists} is not a partition of the names {names}"
        elif got - want:
            return f"presentation {fmt}: a name is used more often than given"
        bv = bins_values(lists, mapping)
        if [Fraction(float(s)) for s in sums] != [sum((Fraction(x) for x in b), Fraction(0)) for b in bv]:
            return f"presentation {fmt}: values of the named bins {bv} do not reproduce the sums {list(sums)}"
    return None


@deal.ensure(lambda kind, algo, values, param, kw, result: result is None, message="C07: answer depends on the presentation of the items")
def c07_presentation(kind, algo, values, param, kw):
    return _c07_ok(kind, algo, values, param, kw)


def c07_case(inp):
    kw = dict(inp.get("kw") or {})
    if "cg" in inp:
        kw.update(cg_kwargs(inp["cg"][0], tuple(inp["cg"][1])))
    r = _c07_ok(inp["kind"], inp["algo"], inp["values"], inp["param"], kw, tuple(inp.get("fmts") or ("list", "array", "dict", "intdict", "names", "dict+valueof")))
    if r is not None:
        raise deal.PostContractError("C07: " + r)
    return nontrivial(inp["values"])


# ------------------------------------------------------------------------------------------------ C13
def _completions(s, R):
    """all integer vectors f >= s pointwise with sum f = sum s + R, up to what matters for symmetric objectives."""
    k = len(s)

    def rec(i, left):
        if i == k - 1:
            yield [left]
            return
        for a in range(left + 1):
            for rest in rec(i + 1, left - a):
                yield [a] + rest
    for add in rec(0, R):
        yield [x + a for x, a in zip(s, add)]


def _c13_bound_ok(objname, s, R):
    o = OBJ[objname]
    best = min(spec.objective_value(objname, f) for f in _completions(s, R))
    seqs = {"tuple": tuple(s), "list": list(s), "array": np.array(s, dtype=float)}
    vals = {}
    for nm, sq in seqs.items():
        for flag in (True, False):
            vals[(nm, flag)] = num(o.lower_bound(sq, R, are_sums_in_ascending_order=flag))
    if len(set(vals.values())) != 1:
        return f"lower bound depends on the sortedness flag / sequence type: {vals}"
    lb = vals[("tuple", True)]
    if lb > best:
        return f"lower bound {lb} exceeds the best reachable objective value {best}"
    return None


@deal.pre(lambda objname, s, R: list(s) == sorted(s) and R >= 0)
@deal.ensure(lambda objname, s, R, result: result is None, message="C13: objective lower bound is not admissible / depends on the flag")
def c13_bound(objname, s, R):
    return _c13_bound_ok(objname, s, R)


def c13_bound_case(inp):
    r = _c13_bound_ok(inp["obj"], inp["s"], inp["R"])
    if r is not None:
        raise deal.PostContractError("C13(bound): " + r)
    return len(set(inp["s"])) > 1 or inp["R"] > 0


def _c13_tree_ok(values, lo, hi):
    from prtpy.inclusion_exclusion_tree import InExclusionBinTree
    names = [f"i{j}" for j in range(len(values))]
    d = dict(zip(names, values))
    tree = InExclusionBinTree(items=names, valueof=d.__getitem__, lower_bound=lo, upper_bound=hi)
    got = [tuple(sorted(t)) for t in tree.generate_tree()]
    want = []
    for r in range(len(names) + 1):
        for c in itertools.combinations(names, r):
            if lo <= sum(d[x] for x in c) <= hi:
                want.append(tuple(sorted(c)))
    if len(got) != len(set(got)):
        return "a sub-collection is yielded twice"
    if set(got) != set(want):
        return f"yielded {sorted(set(got) - set(want))} wrongly, missed {sorted(set(want) - set(got))}"
    return None


@deal.ensure(lambda values, lo, hi, result: result is None, message="C13: inclusion/exclusion enumerator is not exact")
def c13_tree(values, lo, hi):
    return _c13_tree_ok(values, lo, hi)


def c13_tree_case(inp):
    r = _c13_tree_ok(inp["values"], inp["lo"], inp["hi"])
    if r is not None:
        raise deal.PostContractError("C13(tree): " + r)
    return nontrivial(inp["values"])


def _c13_comb_ok(b1, b2):
    """b1, b2: lists of bins (lists of ints).  Both managers."""
    k = len(b1)
    # sums-only manager
    s1 = np.array([float(sum(b)) for b in b1]); s2 = np.array([float(sum(b)) for b in b2])
    s1c, s2c = s1.copy(), s2.copy()
    got = [tuple(num(x) for x in c) for c in BinnerKeepingSums().all_combinations(s1, s2)]
    want = {tuple(sorted(num(s1[p[i]] + s2[i]) for i in range(k))) for p in itertools.permutations(range(k))}
    if any(list(g) != sorted(g) for g in got):
        return "sums-only manager: a combination is not sorted ascending"
    if len(got) != len(set(got)) or set(got) != want:
        return f"sums-only manager: yielded {sorted(got)}, expected exactly once each of {sorted(want)}"
    if list(s1) != list(s1c) or list(s2) != list(s2c):
        return "sums-only manager: all_combinations modified an argument"
    # contents manager
    B = BinnerKeepingContents()
    a1 = (np.array([float(sum(b)) for b in b1]), [list(b) for b in b1]); a2 = (np.array([float(sum(b)) for b in b2]), [list(b) for b in b2])
    c1, c2 = copy.deepcopy(a1), copy.deepcopy(a2)
    gotc = []
    for sums, lists in B.all_combinations(a1, a2):
        if [num(s) for s in sums] != [sum(b) for b in lists]:
            return "contents manager: yielded sums do not describe the yielded bins"
        if [num(s) for s in sums] != sorted(num(s) for s in sums):
            return "contents manager: a combination is not sorted by ascending sum"
        gotc.append(tuple(sorted(tuple(sorted(b)) for b in lists)))
    wantc = {tuple(sorted(tuple(sorted(b1[p[i]] + b2[i])) for i in range(k))) for p in itertools.permutations(range(k))}
    if len(gotc) != len(set(gotc)) or set(gotc) != wantc:
        return f"contents manager: yielded {len(gotc)} ({len(set(gotc))} distinct) combinations, expected exactly the {len(wantc)} distinct ones"
    if list(a1[0]) != list(c1[0]) or a1[1] != c1[1] or list(a2[0]) != list(c2[0]) or a2[1] != c2[1]:
        return "contents manager: all_combinations modified an argument"
    return None


@deal.pre(lambda b1, b2: len(b1) == len(b2) >= 1)
@deal.ensure(lambda b1, b2, result: result is None, message="C13: bin-combination enumerator is not exact")
def c13_comb(b1, b2):
    return _c13_comb_ok(b1, b2)


def c13_comb_case(inp):
    r = _c13_comb_ok(inp["b1"], inp["b2"])
    if r is not None:
        raise deal.PostContractError("C13(combinations): " + r)
    return len(inp["b1"]) >= 2


# ------------------------------------------------------------------------------------------------ C20
def _c20_ok(name, s, kparam, w):
    want = spec.objective_value(name, s, kparam, w)
    o = obj.MaximizeSmallestWeightedSum(list(w)) if name == "weighted" else objective(name, kparam)
    res = {}
    for nm, sq in (("list", list(s)), ("tuple", tuple(s)), ("array", np.array(s))):
        res[nm] = Fraction(float(o.value_to_minimize(sq))) if name == "weighted" else num(o.value_to_minimize(sq))
        if name != "weighted" and list(s) == sorted(s):
            fast = num(o.value_to_minimize(sq, are_sums_in_ascending_order=True))
            if fast != want:
                return f"fast path on sorted {nm} gives {fast}, documented quantity is {want}"
    for nm, v in res.items():
        if name == "weighted":
            if abs(v - want) > Fraction(1, 10 ** 9) * max(1, abs(want)):
                return f"{nm}: value {v} != documented quantity {want}"
        elif v != want:
            return f"{nm}: value {v} != documented quantity {want}"
    return None


@deal.pre(lambda name, s, kparam, w: len(s) >= 1 and all(x >= 0 for x in s))
@deal.ensure(lambda name, s, kparam, w, result: result is None, message="C20: objective does not compute its documented quantity")
def c20_objective(name, s, kparam, w):
    return _c20_ok(name, s, kparam, w)


def c20_case(inp):
    r = _c20_ok(inp["obj"], inp["s"], inp.get("kparam"), inp.get("w"))
    if r is not None:
        raise deal.PostContractError("C20: " + r)
    return len(set(inp["s"])) > 1


# ------------------------------------------------------------------------------------------------ C15
def _snapshot(x):
    if isinstance(x, np.ndarray):
        return ("array", x.dtype.str, x.tolist())
    if isinstance(x, dict):
        return ("dict", list(x.items()))
    return (type(x).__name__, list(x))


def _c15_call(spec_):
    kind, algo, values, param, fmt, kwname = spec_
    kw = {}
    if kwname:
        if kwname[0] == "cg":
            kw.update(cg_kwargs(kwname[1], tuple(kwname[2])))
        elif kwname[0] == "obj":
            kw["objective"] = objective(kwname[1], kwname[2] if len(kwname) > 2 else None)
    items, valueof, mapping, names = present(values, fmt)
    before = _snapshot(items)
    try:
        if kind == "partition":
            fn = PARTITIONERS[algo][0]
            r = prtpy.partition(algorithm=fn, numbins=param, items=items, valueof=valueof, outputtype=out.PartitionAndSumsTuple, **kw)
        else:
            fn = PACKERS.get(algo) or COVERS.get(algo)
            r = prtpy.pack(algorithm=fn, binsize=param, items=items, valueof=valueof, outputtype=out.PartitionAndSumsTuple, **kw)
        res = ("ok", _norm(r[0]), [list(b) for b in r[1]])
    except Exception as e:
        res = ("raised", type(e).__name__)
    after = _snapshot(items)
    return res, before == after


def _c15_ok(calls, order_seed):
    """`calls` is a list of call specs.  Each is first evaluated alone twice (repeatability, inputs untouched); then the
    whole list is run as one interleaved sequence in a seeded order, each call repeated, and every result is compared
    with the isolated one (a forked worker process per contract evaluation keeps the 'fresh' results independent)."""
    fresh = []
    for c in calls:
        r1, same1 = _c15_call(c)
        r2, same2 = _c15_call(c)
        if not (same1 and same2):
            return f"call {c} modified its input"
        if r1 != r2:
            return f"call {c} is not repeatable: {r1} then {r2}"
        fresh.append(r1)
    rng = random.Random(order_seed)
    seq = list(range(len(calls))) * 2
    rng.shuffle(seq)
    for i in seq:
        r, same = _c15_call(calls[i])
        if not same:
            return f"call {calls[i]} modified its input"
        if r != fresh[i]:
            return f"result of {calls[i]} depends on the calls made before it: {r} vs {fresh[i]}"
    return None


@deal.ensure(lambda calls, order_seed, result: result is None, message="C15: calls are not pure / repeatable / history-independent")
def c15_purity(calls, order_seed):
    return _c15_ok(calls, order_seed)


def c15_case(inp):
    r = _c15_ok([tuple(c) for c in inp["calls"]], inp["order_seed"])
    if r is not None:
        raise deal.PostContractError("C15: " + r)
    return True


# ------------------------------------------------------------------------------------------------ C16
class ModelArray:
    """Reference model of a bins-array: list of (list of items).  Sums are derived."""
    def __init__(self, bins):
        self.bins = [list(b) for b in bins]


def _check_live(binner, keeps, live, model, values):
    for name, arr in live.items():
        m = model[name]
        sums = [num(s) for s in binner.sums(arr)]
        want = [sum(values[x] for x in b) for b in m.bins]
        if sums != want:
            return f"array {name}: sums {sums} != totals of its recorded items {want}"
        if binner.numbins(arr) != len(m.bins):
            return f"array {name}: numbins {binner.numbins(arr)} != {len(m.bins)}"
        if keeps:
            lists = arr[1]
            if [list(b) for b in lists] != m.bins:
                return f"array {name}: contents {lists} != expected {m.bins}"
            if [num(s) for s in arr[0]] != [sum(values[x] for x in b) for b in lists]:
                return f"array {name}: a sum differs from the total of the recorded items"
            for j in range(len(lists)):
                if binner.numitems(arr, j) != len(m.bins[j]):
                    return f"array {name}: numitems wrong"
    return None


def _c16_ok(keeps, ops, values):
    """ops: list of operations over a pool of named live arrays, respecting the hand-over discipline."""
    vmap = dict(values)
    binner = (BinnerKeepingContents if keeps else BinnerKeepingSums)(vmap.__getitem__)
    live, model = {}, {}
    for op in ops:
        kind = op[0]
        if kind == "new":
            _, name, k = op
            live[name] = binner.new_bins(k); model[name] = ModelArray([[] for _ in range(k)])
        elif kind == "add":
            _, name, item, j = op
            r = binner.add_item_to_bin(live[name], item, j)
            if r is not live[name]:
                return "add_item_to_bin did not return its bins argument"
            model[name].bins[j].append(item)
        elif kind == "copy":
            _, src, dst = op
            live[dst] = binner.copy_bins(live[src]); model[dst] = ModelArray(model[src].bins)
        elif kind == "sort":
            _, name = op
            before = sorted((sum(vmap[x] for x in b), sorted(b)) for b in model[name].bins)
            binner.sort_by_ascending_sum(live[name])
            sums = [num(s) for s in binner.sums(live[name])]
            if sums != sorted(sums):
                return f"sort_by_ascending_sum left sums {sums}"
            if keeps:
                after = sorted((sum(vmap[x] for x in b), sorted(b)) for b in live[name][1])
                if after != before:
                    return "sort_by_ascending_sum did not permute sums and contents together"
                # stable w.r.t. the documented effect: any permutation into non-decreasing order is acceptable
                model[name].bins = [list(b) for b in live[name][1]]
            else:
                model[name].bins = sorted(model[name].bins, key=lambda b: sum(vmap[x] for x in b))
        elif kind == "add_empty":
            _, src, dst, m = op
            arr = live.pop(src); mod = model.pop(src)
            live[dst] = binner.add_empty_bins(arr, m); model[dst] = ModelArray(mod.bins + [[] for _ in range(m)])
        elif kind == "remove":
            _, src, dst, m = op
            arr = live.pop(src); mod = model.pop(src)
            live[dst] = binner.remove_bins(arr, m); model[dst] = ModelArray(mod.bins[:len(mod.bins) - m])
        elif kind == "concat":
            _, a, b, dst = op
            A = live.pop(a); MA = model.pop(a); Bv = live.pop(b); MB = model.pop(b)
            live[dst] = binner.concatenate_bins(A, Bv); model[dst] = ModelArray(MA.bins + MB.bins)
        elif kind == "combine":
            _, a, i, b, j = op
            binner.combine_bins(live[a], i, live[b], j)
            model[a].bins[i] = model[a].bins[i] + model[b].bins[j]
        else:
            raise KeyError(kind)
        r = _check_live(binner, keeps, live, model, vmap)
        if r is not None:
            return f"after {op}: {r}"
    return None


@deal.ensure(lambda keeps, ops, values, result: result is None, message="C16: bins-manager operation broke consistency / independence / documented effect")
def c16_ops(keeps, ops, values):
    return _c16_ok(keeps, ops, values)


def c16_case(inp):
    r = _c16_ok(inp["keeps"], [tuple(o) for o in inp["ops"]], inp["values"])
    if r is not None:
        raise deal.PostContractError("C16: " + r)
    return len(inp["ops"]) >= 3


def gen_op_sequence(rng, length, maxbins=3):
    """Random operation sequence obeying the hand-over discipline (names are never reused)."""
    items = [f"x{i}" for i in range(8)]
    values = [(it, rng.choice([0, 1, 1, 2, 3, 5])) for it in items]
    ops, live, counter = [], {}, [0]

    def fresh():
        counter[0] += 1
        return f"a{counter[0]}"
    n0 = fresh(); k0 = rng.randint(1, maxbins); ops.append(("new", n0, k0)); live[n0] = k0
    for _ in range(length):
        names = list(live)
        nm = rng.choice(names); k = live[nm]
        choices = ["new", "copy", "sort"]
        if k > 0:
            choices += ["add", "add", "add", "remove"]
        choices += ["add_empty"]
        if len(names) >= 2:
            choices += ["concat"]
            if any(live[x] > 0 for x in names if x != nm) and k > 0:
                choices += ["combine", "combine"]
        c = rng.choice(choices)
        if c == "new":
            n = fresh(); kk_ = rng.randint(0, maxbins); ops.append(("new", n, kk_)); live[n] = kk_
        elif c == "copy":
            n = fresh(); ops.append(("copy", nm, n)); live[n] = k
        elif c == "sort":
            ops.append(("sort", nm))
        elif c == "add":
            ops.append(("add", nm, rng.choice(items), rng.randrange(k)))
        elif c == "remove":
            m = rng.randint(0, k); n = fresh(); ops.append(("remove", nm, n, m)); del live[nm]; live[n] = k - m
        elif c == "add_empty":
            m = rng.randint(0, 2); n = fresh(); ops.append(("add_empty", nm, n, m)); del live[nm]; live[n] = k + m
        elif c == "concat":
            other = rng.choice([x for x in names if x != nm]); n = fresh()
            ops.append(("concat", nm, other, n)); ko = live[other]; del live[nm]; del live[other]; live[n] = k + ko
        elif c == "combine":
            other = rng.choice([x for x in names if x != nm and live[x] > 0])
            ops.append(("combine", nm, rng.randrange(k), other, rng.randrange(live[other])))
    return {"ops": [list(o) for o in ops], "values": values}


# ------------------------------------------------------------------------------------------------ C18
def _sums_of(kind, algo, values, param, kw=None):
    (sums, lists), _, _ = _call(kind, algo, values, param, "list", out.PartitionAndSumsTuple, kw or {})
    return [Fraction(float(s)) for s in sums]


def _value_of(algo, values, k, objname, kw):
    s = _sums_of("partition", algo, values, k, kw)
    return spec.objective_value(objname, s, None)


def _c18_exact_ok(algo, values, k, objname, kwname, perm_seed, factor, zeros):
    kw = {}
    if algo == "cg":
        kw.update(cg_kwargs(objname, tuple(kwname)))
    elif algo in ("dp", "ilp"):
        kw["objective"] = OBJ[objname]
    base = _value_of(algo, values, k, objname, kw)
    p = list(values); random.Random(perm_seed).shuffle(p)
    if _value_of(algo, p, k, objname, kw) != base:
        return f"reordering the input to {p} changes the optimal value"
    if _value_of(algo, [v * factor for v in values], k, objname, kw) != base * factor:
        return f"scaling by {factor} does not scale the optimal value"
    if _value_of(algo, list(values) + [0] * zeros, k, objname, kw) != base:
        return f"adding {zeros} zero-valued items changes the optimal value"
    return None


def c18_exact_case(inp):
    r = _c18_exact_ok(inp["algo"], inp["values"], inp["k"], inp.get("obj", "difference"), inp.get("cg"), inp["perm_seed"], inp["factor"], inp["zeros"])
    if r is not None:
        raise deal.PostContractError(f"C18({inp['algo']}): " + r)
    return nontrivial(inp["values"])


def _c18_heur_ok(kind, algo, values, param, perm_seed, factor):
    base = _sums_of(kind, algo, values, param)
    sorting = algo in ("greedy", "roundrobin", "multifit", "kk", "ffd", "bfd", "decreasing", "twothirds", "threequarters")
    if sorting:
        p = list(values); random.Random(perm_seed).shuffle(p)
        if sorted(_sums_of(kind, algo, p, param)) != sorted(base):
            return f"reordering the input to {p} changes the multiset of sums"
    scaled = _sums_of(kind, algo, [v * factor for v in values], param * factor if kind == "pack" else param)
    if scaled != [s * factor for s in base]:
        return f"scaling by {factor}: sums {[str(s) for s in scaled]} != {factor} * {[str(s) for s in base]}"
    return None


def c18_heur_case(inp):
    r = _c18_heur_ok(inp["kind"], inp["algo"], inp["values"], inp["param"], inp["perm_seed"], inp["factor"])
    if r is not None:
        raise deal.PostContractError(f"C18({inp['algo']}): " + r)
    return nontrivial(inp["values"])


def _c18_agree_ok(values, k):
    """Beyond oracle size: all exact algorithms report the same optimum per objective, never worse than any heuristic."""
    for objname in ("difference", "min-max", "max-min"):
        vals = {}
        vals["cg"] = _value_of("cg", values, k, objname, cg_kwargs(objname, (True, True, False, True)))
        if k == 2 or (k == 3 and len(values) <= 13):   # dp's state set explodes beyond that (138 s at n=12, k=4)
            vals["dp"] = _value_of("dp", values, k, objname, {"objective": OBJ[objname]})
        vals["ilp"] = _value_of("ilp", values, k, objname, {"objective": OBJ[objname]})
        if objname == "difference":
            vals["ckk"] = _value_of("ckk", values, k, objname, {})
            if k >= 2:
                vals["snp"] = _value_of("snp", values, k, objname, {})
            if 2 <= k <= 4:
                vals["rnp"] = _value_of("rnp", values, k, objname, {})
        if len(set(vals.values())) != 1:
            return f"exact algorithms disagree on {objname}: { {a: str(v) for a, v in vals.items()} }"
        best = next(iter(vals.values()))
        for h in ("greedy", "roundrobin", "multifit", "kk"):
            s = _sums_of("partition", h, values, k)
            if len(s) == k and spec.objective_value(objname, s) < best:
                return f"heuristic {h} beats the 'optimal' value {best} for {objname}"
    return None


def _c18_agree_fast_ok(values, k):
    """Medium size, many instances: the search-based exact algorithms for the difference objective report the same optimum (their pruning rules are
    independent of one another, so a rule that cuts an optimal branch on a rare instance shows as a disagreement)"""
    vals = {"cg": _value_of("cg", values, k, "difference", cg_kwargs("difference", (True, True, False, True))), "ckk": _value_of("ckk", values, k, "difference", {}),
            "snp": _value_of("snp", values, k, "difference", {})}
    if 2 <= k <= 4:
        vals["rnp"] = _value_of("rnp", values, k, "difference", {})
    if len(set(vals.values())) != 1:
        return f"exact algorithms disagree on the smallest difference: { {a: str(v) for a, v in vals.items()} }"
    for objname in ("min-max", "max-min"):
        a = _value_of("cg", values, k, objname, cg_kwargs(objname, (True, True, False, True)))
        b = _value_of("cg", values, k, objname, cg_kwargs(objname, (False, False, False, False)))
        if a != b:
            return f"complete greedy with and without its pruning switches disagrees on {objname}: {a} vs {b}"
    return None


def c18_agree_fast_case(inp):
    r = _c18_agree_fast_ok(inp["values"], inp["k"])
    if r is not None:
        raise deal.PostContractError("C18(agreement): " + r)
    return True


def c18_agree_case(inp):
    r = _c18_agree_ok(inp["values"], inp["k"])
    if r is not None:
        raise deal.PostContractError("C18(agreement): " + r)
    return True
