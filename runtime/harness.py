"""T3 driver: evaluates deal contracts of the sidecar wrappers on deterministic bounded-exhaustive domains
(plus seeded samples) in a process pool.  A T3 result is a *bounded stand-in* and is never counted as proved."""
from __future__ import annotations
import itertools, os, random, time, traceback, multiprocessing as mp
from pyvc.report import Ob, BOUNDED, REFUTED, UNDECIDED

import faulthandler, signal
faulthandler.register(signal.SIGUSR1, all_threads=True)
NPROC = int(os.environ.get("VERIF_NPROC", "16"))


# ------------------------------------------------------------------ domains
def multisets(nmax, vmax, vmin=0, nmin=1):
    for n in range(nmin, nmax + 1):
        for c in itertools.combinations_with_replacement(range(vmin, vmax + 1), n):
            yield list(c)


def sequences(nmax, vmax, vmin=0, nmin=1):
    for n in range(nmin, nmax + 1):
        for c in itertools.product(range(vmin, vmax + 1), repeat=n):
            yield list(c)


def random_lists(rng, count, nmin, nmax, vmax, vmin=0):
    for _ in range(count):
        n = rng.randint(nmin, nmax)
        yield [rng.randint(vmin, vmax) for _ in range(n)]


def nontrivial(values):
    return len(values) >= 2 and len(set(values)) >= 2


# ------------------------------------------------------------------ pool
_CASE = None


def _work(chunk):
    """Run one chunk of inputs through the case function; returns (evaluations, nontrivial_keys, failures, samples)."""
    fn = _CASE
    fails, keys, ev = [], set(), 0
    for inp in chunk:
        ev += 1
        try:
            nt = fn(inp)
            if nt:
                keys.add(repr(inp))
        except Exception as e:  # contract errors and unexpected exceptions of the real code alike
            import deal
            kind = getattr(e, "verif_kind", None) or ("contract" if isinstance(e, (deal.ContractError, AssertionError)) else "exception")
            fails.append({"input": inp, "kind": kind, "error": f"{type(e).__name__}: {str(e)[:500]}",
                          "trace": traceback.format_exc()[-1500:] if kind == "exception" else ""})
            if isinstance(inp, dict):
                fails[-1]["input"] = dict(inp, _kind=kind)
            if len(fails) >= 200:
                break
    return ev, keys, fails


def _work_indexed(arg):
    return arg[0], _work(arg[1])


def run_case(ob_id, function, case_fn, inputs, bound, chunk=64, nproc=None, budget_s=None, chunk_timeout=600):
    """Evaluate `case_fn(input)` (which raises on a contract violation and returns True when the input is non-trivial)
    over `inputs`.  Returns an Ob of tier T3."""
    global _CASE
    t0 = time.time()
    if os.environ.get("VERIF_REPLAY_OB"):
        import json
        if os.environ["VERIF_REPLAY_OB"] != ob_id:
            return Ob(id=ob_id, tier="T3", status="skipped")
        if os.environ.get("VERIF_REPLAY_INPUT"):
            one = json.loads(os.environ["VERIF_REPLAY_INPUT"])
            if isinstance(one, dict):
                one.pop("_kind", None)
            inputs = [one]
    inputs = list(inputs)
    _CASE = case_fn
    chunks = [inputs[i:i + chunk] for i in range(0, len(inputs), chunk)]
    ev, keys, fails = 0, set(), []
    nproc = nproc or NPROC
    hung = 0
    if len(chunks) <= 1 or nproc == 1:
        for c in chunks:
            e, k, f = _work(c)
            ev += e; keys |= k; fails += f
    else:
        ctx = mp.get_context("fork")
        todo = dict(enumerate(chunks))
        for attempt in range(3):
            if not todo:
                break
            pool = ctx.Pool(min(nproc, len(todo)))
            try:
                it = pool.imap_unordered(_work_indexed, list(todo.items()))
                while todo:
                    try:
                        idx, (e, k, f) = it.next(timeout=chunk_timeout)
                    except StopIteration:
                        break
                    except mp.TimeoutError:
                        hung += 1      # a worker is stuck inside native code (never a verdict): retry the missing chunks
                        break
                    todo.pop(idx, None)
                    ev += e; keys |= k; fails += f
            finally:
                pool.terminate(); pool.join()
        if todo:
            missing = sum(len(c) for c in todo.values())
            ob = Ob(id=ob_id, tier="T3", status=UNDECIDED, function=function, solver="runtime(deal)", time_s=time.time() - t0, bound=bound,
                    evaluations=ev, nontrivial=len(keys), detail=f"{missing} inputs could not be evaluated: worker hung {hung} times (native code), e.g. {list(todo.values())[0][0]}")
            return ob
    ob = Ob(id=ob_id, tier="T3", status=BOUNDED, function=function, solver="runtime(deal)", time_s=time.time() - t0,
            bound=bound, evaluations=ev, nontrivial=len(keys), samples=[inputs[0], inputs[len(inputs) // 2], inputs[-1]] if inputs else [])
    if fails:
        fails.sort(key=lambda f: len(repr(f["input"])))
        f = fails[0]
        ob.status = REFUTED
        ob.detail = f["error"] + (" | " + f["trace"] if f["trace"] else "")
        ob.witness = {"input": f["input"], "failures": [{"input": x["input"], "kind": x["kind"], "error": x["error"][:300]} for x in fails[:400]]}
        ob.replayed = True  # the failure *is* an execution of the real code on this input
    if ev == 0:
        ob.status = UNDECIDED
        ob.detail = "empty domain"
    return ob
