#!/bin/bash
# Build the overlay interpreter (/verif/.venv): Python 3.12 of /venv + verification wheels from the
# offline wheelhouse + a .pth that adds /venv's site-packages (numpy, mip, prtpy as editable install of /repo).
set -e
cd "$(dirname "$0")"
exec 9>.venv.lock
flock 9
if [ -x .venv/bin/python ] && .venv/bin/python -c "import z3, deal, jsonschema, numpy, mip" 2>/dev/null; then
  exit 0
fi
rm -rf .venv
/venv/bin/python -m venv .venv
PIP_NO_INDEX=1 .venv/bin/python -m pip install -q --no-index --find-links /opt/veriftools/wheels \
    z3-solver cvc5 deal icontract crosshair-tool jsonschema hypothesis
echo "import site; site.addsitedir('/venv/lib/python3.12/site-packages')" > .venv/lib/python3.12/site-packages/_repo_overlay.pth
.venv/bin/python -c "import z3, deal, jsonschema, numpy, mip, prtpy; print('overlay venv ok')"
