"""C06 - reported sums and derived outputs always describe the returned bins."""
import random
from runtime import harness as H
from props import _ded as D
from runtime import t3_misc as T
from props._algos import partition_calls, pack_calls


def t3(rep, tier, seed):
    rng = random.Random(seed)
    calls = partition_calls(tier, rng) + pack_calls(tier, rng)
    # regression input recorded when defect F6 was exhibited
    calls.append({"kind": "pack", "algo": "bc", "values": [30, 30, 30, 30, 40, 40], "param": 100})
    by = {}
    for c in calls:
        by.setdefault(c["algo"], []).append(c)
    for algo, dom in by.items():
        rep.add(H.run_case(f"C06/T3/{algo}/outputs-describe-bins", f"prtpy::{algo}", T.c06_case, dom,
                           "domains of C01/C03/C05 reduced (n<=4/5); all 10 output types of prtpy.out compared with PartitionAndSumsTuple", chunk=32))


def run(rep, tier, seed):
    rep.level = "exploration"
    rep.assume("A1", "A2", "A4", "A5", "A6", "A7", "A8")
    D.run_contracts(rep, "C06", D.PART_HEUR + D.FIT + D.COVER + D.TQ, tier, with_lemmas=True)
    D.run_contracts(rep, "C06", D.binners(), tier, also=("C16",))
    D.run_contracts(rep, "C06", D.relational(), tier)
    D.run_contracts(rep, "C06", D.adaptors(), tier)
    D.run_static(rep, "C06", ("purity", "interface"))      # every per-call contract presupposes that results are functions of the arguments
    t3(rep, tier, seed)
    D.link_falsifier(rep)
