"""Call catalogues shared by the cross-cutting properties C06 C07 C15 C18."""
import random
from runtime import harness as H
from runtime.common import CG_SWITCHES


def partition_calls(tier, rng, small=False):
    """(algo, values, k, extra) for every partitioner over a P(.) domain sized for cross-cutting properties."""
    N, V, K = (4, 3, 3) if tier == "quick" else (5, 4, 4)
    ms = list(H.multisets(N, V))
    rnd = [[rng.randint(0, 40) for _ in range(rng.randint(3, 7))] for _ in range(12 if tier == "quick" else 120)]
    calls = []
    for algo in ("greedy", "roundrobin", "multifit", "kk", "ckk", "snp", "dp"):
        for v in ms + rnd:
            for k in range(1, K + 1):
                calls.append({"kind": "partition", "algo": algo, "values": v, "param": k})
    for v in ms + rnd:
        for k in range(1, min(K, 4) + 1):
            calls.append({"kind": "partition", "algo": "rnp", "values": v, "param": k})
        calls.append({"kind": "partition", "algo": "cbldm", "values": v, "param": 2})
    for v in (ms[::3] if tier == "quick" else ms) + rnd[:10]:
        if len(v) <= 5:
            for k in (1, 2, 3):
                calls.append({"kind": "partition", "algo": "ilp", "values": [min(x, 200) for x in v], "param": k})
    sws = [(True, True, False, True), (False, False, True, False), (True, False, True, True), (False, True, False, False)] if tier == "quick" else CG_SWITCHES
    for objname in ("difference", "min-max", "max-min"):
        for sw in sws:
            for v in ms[::2] + rnd[:6]:
                for k in (1, 2, 3):
                    calls.append({"kind": "partition", "algo": "cg", "values": v, "param": k, "cg": [objname, list(sw)]})
    return calls


def pack_calls(tier, rng):
    calls = []
    N = 4 if tier == "quick" else 5
    for B in (6, 10):
        for m in H.multisets(N, B, 0):
            for algo in ("ff", "ffd", "bf", "bfd"):
                calls.append({"kind": "pack", "algo": algo, "values": m[::-1] if sum(m) % 2 else m, "param": B})
            if all(x >= 1 for x in m):
                calls.append({"kind": "pack", "algo": "bc", "values": m, "param": B})
    for B in (6, 12):
        for m in H.multisets(N, B + 2, 1):
            for algo in ("decreasing", "twothirds", "threequarters"):
                calls.append({"kind": "pack", "algo": algo, "values": m, "param": B})
    for _ in range(20 if tier == "quick" else 300):
        B = rng.choice([20, 50]); vals = [rng.randint(1, B) for _ in range(rng.randint(4, 10))]
        for algo in ("ff", "ffd", "bf", "bfd", "bc", "decreasing", "twothirds", "threequarters"):
            calls.append({"kind": "pack", "algo": algo, "values": vals, "param": B})
    return calls
