"""C13 - search bounds are admissible and search enumerators are complete."""
import itertools, random
from runtime import harness as H
from props import _ded as D
from contracts import objectives as O
from runtime import t3_misc as T


def t3(rep, tier, seed):
    rng = random.Random(seed)
    KM, VM, RM = (4, 5, 7) if tier == "quick" else (4, 6, 9)
    dom = []
    for k in range(1, KM + 1):
        for s in itertools.combinations_with_replacement(range(VM + 1), k):
            for R in range(RM + 1):
                for o in ("max-min", "min-max", "difference"):
                    dom.append({"obj": o, "s": list(s), "R": R})
    for _ in range(100 if tier == "quick" else 2000):
        k = rng.randint(2, 5); s = sorted(rng.randint(0, 30) for _ in range(k)); R = rng.randint(0, 12 if k <= 4 else 8)
        dom.append({"obj": rng.choice(["max-min", "min-max", "difference"]), "s": s, "R": R})
    rep.add(H.run_case("C13/T3/objectives.lower_bound/admissible", "prtpy/objectives.py::lower_bound", T.c13_bound_case, dom,
                       f"every sorted vector of k<={KM} integers in 0..{VM}, remaining total R<={RM}, every integer completion f>=s with sum f = sum s + R; both flag values; tuple/list/ndarray; seeded random k<=5", chunk=128))
    N, V = (5, 3) if tier == "quick" else (7, 4)
    dom = []
    for vals in H.multisets(N, V):
        tot = sum(vals)
        wins = {(lo, hi) for lo in range(0, tot + 2) for hi in range(lo, tot + 2)}
        wins = sorted(wins)
        if len(wins) > 12:
            wins = wins[::max(1, len(wins) // 12)]
        for lo, hi in wins:
            dom.append({"values": vals[::-1] if tot % 2 else vals, "lo": lo, "hi": hi})
            dom.append({"values": vals, "lo": lo - 0.5, "hi": hi + 0.25})
    rep.add(H.run_case("C13/T3/InExclusionBinTree/exact", "prtpy/inclusion_exclusion_tree.py::InExclusionBinTree.generate_tree", T.c13_tree_case, dom,
                       f"all multisets n<={N} of 0..{V} (zeros, repeats) x up to 12 windows each (integer and fractional ends)", chunk=128))
    dom = []
    KB = 3 if tier == "quick" else 4
    for k in range(1, KB + 1):
        pool = [[], [1], [2], [1, 1], [1, 2], [3]]
        for b1 in itertools.combinations_with_replacement(pool, k):
            for b2 in itertools.combinations_with_replacement(pool[:5], k):
                dom.append({"b1": [list(x) for x in b1], "b2": [list(x) for x in b2][::-1]})
    # five bins with many coinciding sums (where a de-duplication key that forgets multiplicities or order goes wrong)
    # the same items stored in different orders in different bins (contents are lists, not sets), with empty and non-empty partners
    poolo = [[], [1, 2], [2, 1], [4], [1, 2, 2], [2, 1, 2]]
    for k in (2, 3):
        for b1 in itertools.combinations_with_replacement(poolo, k):
            for b2 in itertools.permutations(([], [4], [1, 2])[:k] if k == 3 else ([], [4]), k):
                dom.append({"b1": [list(x) for x in b1], "b2": [list(x) for x in b2]})
    pool5 = [[], [1], [2]] if tier == "quick" else [[], [1], [2], [1, 1]]
    for b1 in itertools.combinations_with_replacement(pool5, 5):
        for b2 in itertools.combinations_with_replacement(pool5, 5):
            dom.append({"b1": [list(x) for x in b1], "b2": [list(x) for x in b2]})
    for _ in range(40 if tier == "quick" else 400):
        k = rng.randint(2, 5)
        dom.append({"b1": [[rng.randint(0, 9) for _ in range(rng.randint(0, 2))] for _ in range(k)],
                    "b2": [[rng.randint(0, 9) for _ in range(rng.randint(0, 2))] for _ in range(k)]})
    rep.add(H.run_case("C13/T3/all_combinations/exact", "prtpy/binners.py::all_combinations", T.c13_comb_case, dom,
                       f"all pairs of bins-arrays with k<={KB} bins over a pool of 6 small bins + all pairs of 5-bin arrays over a pool of 3 (4) small bins; seeded random pairs up to 5 bins; both managers", chunk=64))


def run(rep, tier, seed):
    rep.level = "exploration"
    rep.assume("A1", "A2", "A4", "A5", "A6", "A8")
    D.run_contracts(rep, "C13", O.BOUND_CONTRACTS, tier)
    from contracts import enumerators as EN
    D.run_contracts(rep, "C13", EN.ALL, tier)
    D.run_static(rep, "C13", ("purity",))      # every per-call contract presupposes that results are functions of the arguments
    t3(rep, tier, seed)
    D.link_falsifier(rep)
