"""C04 - bin-completion uses the minimum possible number of bins."""
import random
from runtime import harness as H
from props import _ded as D
from runtime import t3_pack as T

REGRESSION = [([30, 30, 30, 30, 40, 40], 100), ([4, 4, 8, 9, 9, 8, 7, 3, 4, 3], 20), ([5, 10, 4, 10, 8, 6, 4, 10, 5, 4, 4, 10], 20)]


def t3(rep, tier, seed):
    rng = random.Random(seed)
    dom = []
    for Z, N in ((6, 6 if tier == "quick" else 8), (10, 5 if tier == "quick" else 7), (12, 5 if tier == "quick" else 6)):
        for m in H.multisets(N, Z, 1):
            dom.append({"values": m[::-1] if len(m) % 2 else m, "B": Z})
    for _ in range(150 if tier == "quick" else 4000):
        n = rng.randint(6, 12 if tier == "quick" else 14)
        B = rng.choice([20, 50, 100])
        dom.append({"values": [rng.randint(1, B) for _ in range(n)], "B": B})
    dom += [{"values": v, "B": B} for v, B in REGRESSION]
    from props._domains import threshold_packs
    dom += threshold_packs(tier)          # items on the thresholds of the pruning rules (exact halves / thirds), 7-8 items
    rep.add(H.run_case("C04/T3/bc/minimum-bins", "prtpy/packing/bin_completion.py::bin_completion", T.c04_case, dom,
                       "all multisets n<=6..8 of values 1..Z for Z in {6,10,12}; seeded random n<=12/14; recorded regression inputs; oracle = exhaustive branch-and-bound", chunk=32))


def run(rep, tier, seed):
    rep.level = "exploration"
    rep.assume("A1", "A4", "A6", "A8")
    D.run_static(rep, "C04", ("purity",), only_files=("bin_completion",))
    from contracts import bincompletion as BC
    D.run_contracts(rep, "C04", [("contracts.bincompletion", "bin_completion")] + BC.HELPERS, tier, also=("C03",))
    t3(rep, tier, seed)
    D.link_falsifier(rep)
