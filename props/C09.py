"""C09 - fit heuristics keep the any-fit invariant and their bin-count bounds."""
import random
from runtime import harness as H
from props import _ded as D
from runtime import t3_pack as T
from props._domains import pack_inputs


def t3(rep, tier, seed):
    rng = random.Random(seed)
    base = pack_inputs(tier, rng)
    bound = "B(N,Z) of C03 in every arrival order for n<=4/5; OPT from an exhaustive branch-and-bound oracle (n<=12); planted perfect packings up to 120 items"
    for algo in ("ff", "bf", "ffd", "bfd"):
        dom = [dict(d, algo=algo, with_opt=(len(d["values"]) <= 9)) for d in base]
        rep.add(H.run_case(f"C09/T3/{algo}/any-fit+bounds", f"prtpy.packing::{algo}", T.c09_case, dom, bound))
        pl = []
        for _ in range(40 if tier == "quick" else 400):
            nb = rng.randint(3, 30); B = rng.choice([20, 60, 100])
            pl.append({"algo": algo, "values": T.planted_perfect_packing(rng, nb, B, 4), "B": B, "opt": nb,
                       "fmt": ("list", "names", "names:asc", "names:desc", "names:valley", "names:pyramid")[len(pl) % 6]})
        for d in list(pl[::5]):
            for f in ("names:inorder-desc", "names:inorder-asc"):
                pl.append(dict(d, values=sorted(d["values"]), fmt=f))       # smallest first (the worst arrival order), names monotone in input order
        rep.add(H.run_case(f"C09/T3/{algo}/planted-bounds", f"prtpy.packing::{algo}", T.c09_planted_case, pl, "planted perfect packings, 3..30 bins, <=4 items per bin; presented as a list, as names in pseudo-random order, and as names ordered against the values (ascending, descending, valley, pyramid), and smallest-first with names monotone in input order"))


def run(rep, tier, seed):
    rep.level = "exploration"
    rep.assume("A1", "A2", "A4", "A5", "A6", "A7", "A8")
    D.run_contracts(rep, "C09", D.FIT, tier, with_lemmas=False)
    D.run_static(rep, "C09", ("purity",))      # every per-call contract presupposes that results are functions of the arguments
    D.run_contracts(rep, "C09", D.relational(), tier, only_tagged=True)      # the same postconditions at bounded shape on the real manager classes: concrete, replayable counter-models
    t3(rep, tier, seed)
    D.link_falsifier(rep)
