"""C08 - partitioning heuristics meet their proven worst-case guarantees."""
import random
from runtime import harness as H
from props import _ded as D
from runtime import t3_part as T


def t3(rep, tier, seed):
    rng = random.Random(seed)
    N, V, K = (5, 5, 4) if tier == "quick" else (6, 7, 5)
    ms = list(H.multisets(N, V))
    rnd = [[rng.randint(0, 100) for _ in range(rng.randint(4, 9))] for _ in range(60 if tier == "quick" else 1000)]
    bound = f"all multisets n<={N} of 0..{V} x numbins 1..{K} + seeded random n<=9 + two or three runs of equal values (6..8 items, 3..4 bins); OPT = exhaustive minimum over all assignments; planted equal-sum instances up to 120 items"
    for algo in ("greedy", "kk", "roundrobin", "multifit"):
        dom = [{"algo": algo, "values": v, "k": k} for v in ms for k in range(1, K + 1)]
        dom += [{"algo": algo, "values": v, "k": k} for v in rnd for k in (2, 3, 4)]
        # the guarantees are about values: named items whose names (shuffled integers / strings) are unrelated to the values
        dom += [{"algo": algo, "values": v, "k": k, "fmt": f} for v in ms[::3] for k in (2, 3) for f in ("intdict", "names")]
        # runs of equal values (a smaller run back-filling the bins a larger run opened): 6..8 items in two or three runs
        runs = [[a] * c1 + [b] * c2 + [c] * c3 for a in (2, 3, 7, 20) for b in (1, 3, 10) for c in (1,) for c1 in (3, 4) for c2 in (3, 4) for c3 in (0, 1) if a > b and c1 + c2 + c3 <= 8]
        dom += [{"algo": algo, "values": v, "k": k} for v in runs for k in (3, 4)]
        if algo == "multifit":      # the bound is 1.22 + 2^-iterations for the requested number of iterations, not only the default
            dom += [{"algo": algo, "values": v, "k": k, "iterations": i} for v in ms for k in (2, 3) for i in (1, 2, 3)]
        rep.add(H.run_case(f"C08/T3/{algo}/guarantees", f"prtpy.partitioning::{algo}", T.c08_case, dom, bound))
        pl = []
        for _ in range(30 if tier == "quick" else 300):
            k = rng.randint(2, 8); per = rng.randint(2, 15); tot = rng.choice([100, 360, 1000])
            pl.append({"algo": algo, "values": T.planted_equal_partition(rng, k, per, tot), "k": k, "opt": tot})
        rep.add(H.run_case(f"C08/T3/{algo}/planted", f"prtpy.partitioning::{algo}", T.c08_planted_case, pl, "planted instances: k in 2..8 bins of equal total, 2..15 items each"))


def run(rep, tier, seed):
    rep.level = "exploration"
    rep.assume("A1", "A2", "A4", "A5", "A6", "A7", "A8")
    D.run_contracts(rep, "C08", D.PART_HEUR, tier, with_lemmas=False)
    D.run_contracts(rep, "C08", [("contracts.exact", "kk_part")], tier, only_tagged=True)
    D.run_static(rep, "C08", ("purity",))      # every per-call contract presupposes that results are functions of the arguments
    D.run_contracts(rep, "C08", D.relational(), tier, only_tagged=True)      # the same postconditions at bounded shape on the real manager classes: concrete, replayable counter-models
    t3(rep, tier, seed)
    D.link_falsifier(rep)
