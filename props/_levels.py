"""Claimed verification level per property (source of MANIFEST.json, see tools/mkmanifest.py).
Kept honest: 'proof' only where the core of the statement is carried by discharged deductive obligations (T1 unbounded / T2 all values
at a stated shape bound / static judgements); every conjunct that is only a bounded stand-in (T3) is named as such."""

_ENGINE = ("pyvc (built here): re-reads /repo's source with ast on every run, symbolically executes the real statements against sidecar contracts "
           "(contracts/*.py), discharges every obligation with z3 5.1; ")
_TB = ("trusted: z3; CPython; the library contracts of pyvc/lib.py (sorted = stable permutation, min/max, numpy zeros/array/append/slicing views, heapq, itertools) "
       "- cross-checked against CPython on every explored T2 path; spec functions rbag/rtot/btot of pyvc/logic.py (definitions; the one lemma used is proved by induction); "
       "mathematical arithmetic (A1); partial correctness only (A4); for T3 stand-ins: deal and the exhaustive-enumeration oracles of spec/oracles.py")

_T1 = "contract-based deductive verification of the real functions: sidecar pre/postconditions and inductive loop invariants, VCs generated from the AST, discharged by z3 (unbounded)"
_T2 = "contract-based deductive verification at bounded shape: the real code is symbolically executed on every path for every number of items/bins up to a stated bound with ALL values symbolic; quantifier-free VCs discharged by z3, counter-models replayed on the real code"
_T3 = "run-time deal contracts on sidecar wrappers over a bounded-exhaustive domain (bounded stand-in, never counted as proved)"

LEVELS = {
    "C01": dict(category="other",
                text="Mixed. PROVED unbounded (T1, loop invariants over an abstract Binner contract, any number of items/bins, opaque items): greedy and round-robin return exactly numbins bins holding every item exactly once. "
                     "PROVED for all values at bounded shape (T2, the real search code on every path): complete greedy x 3 objectives (n<=4, k<=3; the shape n=4,k=3 only in the thorough tier), CKK (n<=4), DP x 5 objectives (n<=3), CBLDM (n<=4) return a non-missing result that is a partition into the requested number of bins. "
                     "multifit: PROVED unbounded (T1, any number of items, symbolic numbins, loop invariant of the bisection): every item exactly once and never more than numbins bins - modular over first_fit.online's contract, with ONE TRUSTED THEOREM (Coffman-Garey-Johnson: first-fit-decreasing with capacity >= max(2*sum/numbins, largest item) needs <= numbins bins) for the initial capacity; kk and multifit (2 iterations) also at n<=3 (T2, no theorem); complete greedy under all 16 switch combinations x 3 objectives at n<=4 in the thorough tier (5 combinations in quick). "
                     "BOUNDED STAND-IN only (T3): snp, rnp, ilp (its copies clause is T2 under C17), larger shapes. rnp with 6-8 bins is a listed known finding.",
                technique=_T1 + " + " + _T2 + " + " + _T3),
    "C02": dict(category="other",
                text="Optimality of branch-and-bound searches is not decided for unbounded inputs by anything within reach. PROVED for all integer values at bounded shape (T2): on every path of the real search, the returned objective value is <= that of every one of the k^n assignments, for complete greedy x {difference, min-max, max-min} (default switches, n<=4, k<=3; the shape n=4,k=3 only in the thorough tier), CKK (n<=4, k<=3), DP x 5 objectives incl. 2-smallest and 2-largest (n<=3, k<=2..3); "
                     "and the pruning bounds every search rests on are admissible for every numbins<=6, all sums, all remaining totals (T2, modular). "
                     "Everything beyond those shapes, the 16 switch combinations, k-largest/k-smallest objectives, snp, rnp, ilp: BOUNDED STAND-IN (T3) against an exhaustive optimum. rnp with 5 bins is a listed known finding.",
                technique=_T2 + " + " + _T3),
    "C03": dict(category="proof",
                text="PROVED unbounded (T1) for first-fit, first-fit-decreasing, best-fit, best-fit-decreasing: for any number of items, any real bin size and values (integers and fractions alike), any arrival order, opaque items, the loop invariants give: every sum <= binsize, every item exactly once, no empty bin for a non-empty input, sums equal the totals of the recorded contents (so the bin count is the number of bins); decreasing variants are verified against online's contract (modular). "
                     "Bin-completion: PROVED at bounded shape (T2): the whole search for n<=3 (4) symbolic integer items, and - modular, independent of the number of items packed - its helpers: "
                     "list_without_items is multiset difference (lists <=5), every completion returned by find_bin_completions is a sub-multiset of the items that fits (n<=3). Beyond: BOUNDED STAND-IN (T3).",
                technique=_T1 + "; bin-completion: " + _T3),
    "C04": dict(category="exploration",
                text="Minimality of a branch-and-bound packer with dominance pruning is not decidable deductively here for unbounded inputs. Deductive parts: the lemmas the pruning rests on, PROVED at bounded shape (T2): is_dominant(l1,l2) <=> l2 fits into bins of sizes l1 (lists <=3; the obligation defect F8 broke), every feasible subset is dominated by a completion that find_bin_completions returns (n<=3); the whole search uses no more bins than any of the Bell(n) set partitions for n<=3 (4); purity of bin_completion*.py (static). The deciding check for larger inputs is a BOUNDED STAND-IN (T3): the contract nb(result) = OPT_bins (exhaustive oracle), <= FFD, <= BFD, same count for Partition/Sums/BinCount, over a bounded-exhaustive domain.",
                technique=_T3 + " + static purity judgement"),
    "C05": dict(category="proof",
                text="PROVED unbounded (T1) for the decreasing cover (modular: decreasing_subroutine's contract) and the two-thirds cover: every returned bin >= binsize, bins + dropped last bin = exactly the input multiset (each item used at most once), the dropped bin's total < binsize, inputs too small give zero bins; for any number of opaque items (list and dict alike). "
                     "Three-quarters cover: PROVED unbounded (T1) with the three value classes taken as consecutive windows of the sorted list - a library lemma whose premises (first condition upward closed, third downward closed, exactly one of the three holds of every item) are checked by the solver on the REAL conditions of the code; and PROVED without that lemma for all positive integer values and bin sizes at bounded shape (T2, n<=4 quick / n<=6 thorough, real manager class). T3 stand-ins run besides.",
                technique=_T1 + " + " + _T2),
    "C06": dict(category="proof",
                text="(a) each reported sum equals the total of its bin: wf is proved as class invariant of both managers (T2: every operation from an arbitrary well-formed state of every shape <=3 bins/<=2 items per bin, frame and separation included) and as postcondition of every T1/T2-verified algorithm, which touch bins only through the Binner contracts. "
                     "(b) a cheaper output type never changes the answer: PROVED at bounded shape (T2, n<=3..4) for ten heuristics by executing the real function with both managers and comparing sums. (c) bins-arrays are used only through the manager interface (static, every algorithm); seven sums-based output types through the real adaptor equal their definition on the full output (T2, 5 algorithms, n<=3). Exact algorithms at larger shapes, ckk/snp/rnp: BOUNDED STAND-IN (T3, every output type in prtpy.out).",
                technique=_T1 + " + " + _T2 + " + " + _T3),
    "C07": dict(category="other",
                text="PROVED on every path of every T1/T2-verified function: items are an uninterpreted sort and only binner.valueof looks inside them; arithmetic or numeric comparison on an item is an obligation failure (opacity), ordering items among themselves is modelled by an arbitrary rank unrelated to the values, so any dependence on it fails the value-level postconditions. Together with parametricity (A7) this gives presentation independence for those functions. "
                     "Adaptors, ckk/snp/rnp, ilp, multifit, bin-completion (listed known finding K3): BOUNDED STAND-IN (T3) with list / array / dict / int-named dict / names+valueof presentations.",
                technique=_T1 + " + " + _T2 + " (opacity obligations) + " + _T3),
    "C08": dict(category="other",
                text="PROVED unbounded (T1): gap between largest and smallest sum <= some item for greedy and round-robin; round-robin sums non-increasing in bin index and cardinalities within one; each placement obeys its rule. The ratio bounds (4/3-1/(3k), (3k-1)/(4k-2), 1.22+2^-iterations) are published theorems about the textbook rules: not proved here; BOUNDED STAND-IN (T3) against an exhaustive optimum and planted instances, including named items and small iteration counts. kk gap: T3.",
                technique=_T1 + " + " + _T3),
    "C09": dict(category="proof",
                text="PROVED unbounded (T1): the any-fit invariant (for any two bins, earlier sum + first item of the later bin > binsize) is a loop invariant of first-fit and best-fit in every arrival order and survives to the result; decreasing variants process in non-increasing order (modular). The bin-count bounds (1.7 OPT, 11/9 OPT + 6/9, 11/9 OPT + 4) follow by cited theorems (trusted) and are checked as BOUNDED STAND-IN (T3) against an exhaustive optimum.",
                technique=_T1 + "; bin-count bounds: " + _T3),
    "C10": dict(category="other",
                text="'Never more than OPT' is a corollary of C05 (every reported bin is a genuine cover): PROVED (T1 decreasing, two-thirds; T2 three-quarters n<=4/6). The three lower bounds are published theorems about the rules proved in C14; they are checked as BOUNDED STAND-IN (T3) against an exhaustive subset oracle and planted instances.",
                technique=_T1 + " + " + _T2 + " + " + _T3),
    "C11": dict(category="other",
                text="PROVED for all values at bounded shape (T2), with the clock modelled as an UNCONSTRAINED value at every read, so every interruption point of every run is a path: complete greedy x 3 objectives returns None or a complete valid partition (n<=3, k<=3); CBLDM returns its placeholder or a valid 2-partition obeying the bound (n<=3); the CKK generator yields only sums of real assignments, each strictly better than the previous, the last optimal (n<=3). Static (all paths): clock values flow only into the limit test. "
                     "'First solution is LPT', monotone improvement over limits, larger shapes: BOUNDED STAND-IN (T3) with a deterministic counting clock at every cut-off.",
                technique=_T2 + " with an arbitrary clock + static clock-flow judgement + " + _T3),
    "C12": dict(category="other",
                text="PROVED for all integer values at bounded shape (T2, n<=4 quick / n<=5 thorough, bounds 1, 2 and unbounded): on every path of the real recursive search the result has two bins holding every item once, cardinalities within the bound, and a difference <= that of every one of the 2^n subsets obeying the bound. Larger n: BOUNDED STAND-IN (T3) against all subsets, n<=10.",
                technique=_T2 + " + " + _T3),
    "C13": dict(category="proof",
                text="PROVED for every numbins<=6 (7 thorough), ALL sorted integer sum vectors, ALL remaining totals and EVERY integer completion (T2, quantifier-free LIA after unrolling the real loop): each lower bound <= the objective of the completion and is independent of the sorted-flag (difference bound: modular, from the two callee contracts). "
                     "Inclusion/exclusion enumerator: PROVED for n<=4 (5) items with arbitrary non-negative real values (zeros, repeats) and an arbitrary window: exactly the sub-collections within the window, each once. all_combinations of both managers: PROVED for <=3 bins: every pairing, each distinct one once, nothing else. Larger shapes (5 bins): BOUNDED STAND-IN (T3).",
                technique=_T2 + " + " + _T3),
    "C14": dict(category="proof",
                text="PROVED unbounded (T1): at every placement the chosen bin satisfies the textbook rule as a relation on the state at that moment - greedy: a least-loaded bin, items in non-increasing value order; round-robin: cyclic dealing; first-fit: the first bin that fits, a new bin only when none fits; best-fit: the fullest bin that fits, first among ties; decreasing cover: always the open last bin; two-thirds: one largest then smallest until covered. "
                     "Three-quarters: PROVED unbounded (T1): open with the largest big item when its value is at least the total of the (at most two) largest medium items, otherwise with those, then fill with the smallest small item while the bin is not covered, class membership by value (under the class-window library lemma, premises solver-checked); and PROVED for all values at bounded shape (T2) equal, bin by bin and item by item, to the reference transcription. Rule-conformance => same multiset of sums as the transcription is the meta-step A7; T3 compares against executable transcriptions besides.",
                technique=_T1 + " + " + _T2),
    "C15": dict(category="proof",
                text="PROVED for all paths and sizes by syntactic frame/purity judgements over every function of the library (static tier): caller-owned arguments (items, sums, bins given to read-only operations) are never written directly, through an alias or through a callee (inter-procedural summaries); no function writes or memoises module-level state; no mutable default carries state. Hence results are functions of the arguments (repeatable, history-independent). T3 cross-checks with call interleavings.",
                technique="syntactic frame / purity judgements on the real AST (modifies(f) subset of fresh(f)), inter-procedural, all paths + " + _T3),
    "C16": dict(category="proof",
                text="PROVED for all item values at bounded shape (T2): every documented operation of both managers, executed from an ARBITRARY well-formed state of every shape up to 3 (4) bins and 2 items per bin next to a second live array, keeps sums = totals of contents, has exactly its documented effect, writes nothing reachable from an argument documented as unmodified, leaves the other live array untouched and shares no buffer / outer list / inner list; copies are independent in both directions (checked by mutating one and looking at the other). All histories follow by induction over operations (A7).",
                technique=_T2 + " on a heap model with object identities and numpy views"),
    "C17": dict(category="other",
                text="PROVED for all integer values and positive weights at bounded shape (T2, n<=2 (3) items, <=3 bins, copies 1 / 2 / per-item, three objectives, three caller-constraint forms) UNDER THE ASSUMED CONTRACT of the MIP solver (A3: status OPTIMAL => the unknowns satisfy every constraint the real code built and minimise its objective): every item placed exactly copies times, ValueError exactly when the status is not OPTIMAL, bins in non-decreasing order of (weighted) sum with bin i divided by weight i, caller constraints hold in the result, the objective of the RESULT is <= that of every admissible alternative; a solver option that relaxes optimality voids the clause. "
                     "What the real CBC does (A3 itself) is only a BOUNDED STAND-IN (T3) with a run-time monitor of that contract; K4 is a listed known finding of the dependency.",
                technique=_T2 + " under an assumed solver contract + " + _T3 + " with a solver-contract monitor"),
    "C18": dict(category="other",
                text="PROVED for all values at bounded shape (T2, relational: two symbolic executions of the real function): scaling values (and bin size) by 2 and 7 scales the sums, and reordering the input keeps the multiset of sums, for greedy, round-robin, kk, ff, ffd, bf, bfd and the three covers (n<=3 quick / 4 thorough); the pruning bounds the exact algorithms share are admissible (T2). Exact-algorithm symmetries and agreement on 11-16 items rest on C02: BOUNDED STAND-IN (T3).",
                technique=_T2 + " (relational) + " + _T3),
    "C19": dict(category="proof",
                text="PROVED unbounded (T1) for the four fit heuristics: a returned packing implies no oversize item, and the only exception that can be raised is ValueError and only when an oversize item exists, at any position and multiplicity, for opaque items (every input format); the sums-only manager's numitems raises NotImplementedError (T2). CBLDM with symbolic numbins / time_limit / partition_difference (integer, non-integral, default) and possibly negative items raises ValueError exactly for the malformed requests (T2, n<=2/3); bin-completion raises ValueError exactly when an item exceeds the bin size (T2, n<=3/4). T3 stand-ins run besides.",
                technique=_T1 + " + " + _T3),
    "C20": dict(category="proof",
                text="PROVED for vectors of ANY length (T1) for the three extremum objectives (minus the smallest, the largest, largest minus smallest; fast path = slow path on sorted vectors); PROVED for every vector length <=5 (7 thorough), list / tuple / ndarray, k up to 6 (8) including k > n, ALL non-negative integer sums and ALL positive weights (T2): each of the six objectives returns its documented quantity, and the fast path for sums declared sorted returns the same value whenever they are sorted. Longer vectors: BOUNDED STAND-IN (T3).",
                technique=_T2),
}
for _k, _v in LEVELS.items():
    _v.setdefault("note", _TB)
    _v["technique"] = _v["technique"][:900]

NOT_APPLICABLE = {}
