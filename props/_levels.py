"""Claimed verification level per property (source of MANIFEST.json, see tools/mkmanifest.py).
Kept honest: 'proof' only where the core of the statement is carried by discharged T1/T2 obligations."""

_T3 = "run-time deal contracts on sidecar wrappers of the real functions over a bounded-exhaustive domain (bounded stand-in)"
_TB = "trusted: CPython, numpy, deal, the spec oracles in spec/oracles.py (exhaustive enumeration); assumptions A1 A4 A6 A8 of DESIGN.md section 6"

LEVELS = {}
for pid in ["C%02d" % i for i in range(1, 21)]:
    LEVELS[pid] = {
        "category": "exploration",
        "text": "Bounded stand-in only so far: the property's top-level contract (written from the statement, with an exhaustive-enumeration spec function as oracle) is attached as a deal contract to a sidecar wrapper of the real function and evaluated on every input of a deterministic bounded-exhaustive domain plus seeded samples. Never counted as proved; deductive (T1/T2) obligations are added per property as the engine reaches them.",
        "note": _TB,
        "technique": _T3,
    }

NOT_APPLICABLE = {}
