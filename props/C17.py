"""C17 - ILP options (copies, weights, constraints) are honoured; sums come out ascending."""
import random
from runtime import harness as H
from props import _ded as D

K4_WITNESS = {"values": [22, 163, 24], "k": 3, "obj": "max-min", "weights": [3, 5, 3], "copies": [1, 2, 1]}
F4_WITNESS = {"values": [183, 15, 83], "k": 2, "obj": "max-min", "weights": [5, 1], "copies": 2}


def domain(tier, seed):
    """Deterministic apart from `seed`-driven samples of the plain (copies=1, no weights) kind, where CBC is reliable."""
    rng = random.Random(4242)   # fixed: CBC's rare inconsistent answers must not make verdicts seed-dependent
    dom = []
    objs = [("max-min", None), ("min-max", None), ("difference", None), ("k-smallest", 2), ("k-largest", 2)]
    small = [[1, 2], [3, 3, 2], [5, 1, 4], [7, 2, 2, 6], [0, 4, 9], [10, 20, 40, 1], [200, 17, 99], [6, 6, 6, 6]]
    rnd = [[rng.randint(0, 200) for _ in range(rng.randint(2, 4))] for _ in range(10 if tier == "quick" else 60)]
    vals = small + rnd
    for v in vals:
        n = len(v)
        for k in (1, 2, 3) + ((4,) if tier == "thorough" and n <= 3 else ()):
            for (o, kp) in objs:
                dom.append({"values": v, "k": k, "obj": o, "kparam": kp})
            # copies
            for cp in (2, [rng.randint(0, 2) for _ in range(n)], [2] * (n - 1) + [0]):
                if (k ** (sum(cp) if isinstance(cp, list) else 2 * n)) > 50000:
                    continue
                dom.append({"values": v, "k": k, "obj": rng.choice(objs[:3])[0], "copies": cp})
            # weights
            if k >= 2:
                for w in ([1] * k, [2] * k, list(range(1, k + 1)), list(range(k, 0, -1)), [rng.choice([1, 2, 3, 5]) for _ in range(k)]):
                    for (o, kp) in objs[:3]:
                        dom.append({"values": v, "k": k, "obj": o, "weights": w})
                    dom.append({"values": v, "k": k, "obj": "max-min", "weights": w, "copies": 2 if n <= 3 else [1] * (n - 1) + [2]})
            # additional constraints incl. infeasible ones
            tot = sum(v)
            for cons in (["min==", 0], ["min==", min(v)], ["min==", tot + 1], ["max<=", tot], ["max<=", max(v)], ["max<=", max(v) - 1],
                         ["min>=", 1], ["min>=", tot // k], ["min>=", tot // k + 1]):
                dom.append({"values": v, "k": k, "obj": rng.choice(objs[:3])[0], "cons": cons})
            if k >= 2:
                dom.append({"values": v, "k": k, "obj": "max-min", "cons": ["max<=", tot], "weights": list(range(1, k + 1))})
    dom.append(dict(F4_WITNESS))
    dom.append(dict(K4_WITNESS))
    r2 = random.Random(seed)
    for _ in range(20 if tier == "quick" else 300):
        v = [r2.randint(0, 200) for _ in range(r2.randint(2, 5))]
        o, kp = r2.choice(objs)
        dom.append({"values": v, "k": r2.randint(1, 4), "obj": o, "kparam": kp})
    return dom


def t3(rep, tier, seed):
    from runtime import t3_ilp as T
    dom = domain(tier, seed)
    rep.add(H.run_case("C17/T3/ilp/options-honoured", "prtpy/partitioning/integer_programming.py::optimal", T.c17_case, dom,
                       "8 fixed + 10/60 pseudo-random item lists (values<=200, n<=4) x 1..3(4) bins x 5 objectives x copies (scalar 2, per item 0..2) x 5 weight vectors x 9 additional constraints (incl. infeasible) + seeded plain instances; real CBC with a run-time monitor of the assumed solver contract; oracle = all count assignments", chunk=16, chunk_timeout=90))


def run(rep, tier, seed):
    rep.level = "exploration"
    rep.assume("A1", "A3", "A4", "A6", "A8")
    D.run_contracts(rep, "C17", [("contracts.ilp", "ilp")], tier)
    D.run_static(rep, "C17", ("purity",))      # every per-call contract presupposes that results are functions of the arguments
    t3(rep, tier, seed)
    D.link_falsifier(rep)
