"""C20 - built-in objectives compute their documented quantity on every sum vector."""
import itertools, random
from runtime import harness as H
from props import _ded as D
from contracts import objectives as O
from runtime import t3_misc as T


def t3(rep, tier, seed):
    rng = random.Random(seed)
    NM, VM = (4, 4) if tier == "quick" else (5, 5)
    dom = []
    for n in range(1, NM + 1):
        for s in itertools.product(range(VM + 1), repeat=n):
            for o in ("max-min", "min-max", "difference"):
                dom.append({"obj": o, "s": list(s)})
            for kp in (1, 2, 3, n, n + 1, n + 3):
                dom.append({"obj": "k-smallest", "s": list(s), "kparam": kp})
                dom.append({"obj": "k-largest", "s": list(s), "kparam": kp})
            if n <= 3:
                for w in ([1] * n, [2, 1, 4][:n], [1, 2, 8][:n], [4, 2, 1][:n]):
                    dom.append({"obj": "weighted", "s": list(s), "w": w})
    for _ in range(200 if tier == "quick" else 5000):
        n = rng.randint(1, 8); s = [rng.randint(0, 2 ** rng.choice([4, 20, 45])) for _ in range(n)]
        if rng.random() < 0.4:
            s.sort()
        o = rng.choice(["max-min", "min-max", "difference", "k-smallest", "k-largest", "weighted"])
        d = {"obj": o, "s": s}
        if o.startswith("k-"):
            d["kparam"] = rng.randint(1, n + 2)
        if o == "weighted":
            d["w"] = [rng.choice([1, 2, 4, 8, 16]) for _ in range(n)]
        dom.append(d)
    rep.add(H.run_case("C20/T3/objectives/documented-quantity", "prtpy/objectives.py::value_to_minimize", T.c20_case, dom,
                       f"every vector of n<={NM} sums in 0..{VM} in every order x 6 objectives x k in {{1,2,3,n,n+1,n+3}} x 4 weight vectors; list/tuple/ndarray; fast path on sorted vectors; seeded random n<=8 up to 2^45", chunk=512))


def run(rep, tier, seed):
    rep.level = "exploration"
    rep.assume("A1", "A2", "A5", "A6", "A8")
    D.run_contracts(rep, "C20", O.VALUE_CONTRACTS + O.VALUE_T1_CONTRACTS, tier)
    D.run_static(rep, "C20", ("purity",))      # every per-call contract presupposes that results are functions of the arguments
    t3(rep, tier, seed)
    D.link_falsifier(rep)
