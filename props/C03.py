"""C03 - bin-packing results are feasible packings of exactly the input items."""
import random
from runtime import harness as H
from props import _ded as D
from runtime import t3_pack as T
from props._domains import pack_inputs


def t3(rep, tier, seed):
    rng = random.Random(seed)
    base = pack_inputs(tier, rng)
    bound = "B(N,Z): every arrival order of n<=4/5 values in 0..6 (B=6); multisets n<=4..6 of 0..Z for Z in {10,12} in 3 orders; multiples of 1/8 (B=1, 3/2); seeded random n<=12"
    for algo in ("ff", "ffd", "bf", "bfd"):
        dom = [dict(d, algo=algo) for d in base]
        dom += [dict(d, algo=algo, fmt=f) for d in base[:400:5] if not d.get("scale") for f in ("dict", "names")]
        rep.add(H.run_case(f"C03/T3/{algo}/feasible-packing", f"prtpy.packing::{algo}", T.c03_case, dom, bound))
    dom = [dict(d, algo="bc") for d in base if not d.get("scale")]
    # regression input recorded when defect F7 was exhibited
    dom.append({"algo": "bc", "values": [4, 4, 8, 9, 9, 8, 7, 3, 4, 3], "B": 20})
    # the search of bin-completion only branches for ~8+ items that sit on its pruning thresholds: threshold packs of 8-10 items (B = 10, 12, 30)
    from props._domains import threshold_packs
    dom += [dict(d, algo="bc") for d in threshold_packs(tier, sizes=(8, 9, 10), binsizes=(10, 12, 30), per_size=250 if tier == "quick" else 4000)]
    rep.add(H.run_case("C03/T3/bc/feasible-packing", "prtpy/packing/bin_completion.py::bin_completion", T.c03_case, dom, bound + " (integers only)"))


def run(rep, tier, seed):
    rep.level = "exploration"
    rep.assume("A1", "A2", "A4", "A5", "A6", "A8")
    D.run_contracts(rep, "C03", D.FIT, tier, with_lemmas=False)
    from contracts import bincompletion as BC
    D.run_contracts(rep, "C03", [("contracts.bincompletion", "bin_completion")] + BC.HELPERS, tier)
    D.run_static(rep, "C03", ("purity",))      # every per-call contract presupposes that results are functions of the arguments
    D.run_contracts(rep, "C03", D.relational(), tier, only_tagged=True)      # the same postconditions at bounded shape on the real manager classes: concrete, replayable counter-models
    t3(rep, tier, seed)
    D.link_falsifier(rep)
