"""C15 - calls are pure: inputs untouched, results repeatable, no state across calls."""
import random
from runtime import harness as H
from props import _ded as D
from runtime import t3_misc as T
from props._algos import partition_calls, pack_calls


def _spec(c, fmt):
    kwname = None
    if "cg" in c:
        kwname = ["cg", c["cg"][0], c["cg"][1]]
    return [c["kind"], c["algo"], c["values"], c["param"], fmt, kwname]


def t3(rep, tier, seed):
    rng = random.Random(seed)
    calls = partition_calls(tier, rng) + pack_calls(tier, rng)
    calls = [c for c in calls if len(c["values"]) >= 2]
    # failing calls take part in the interleavings too
    bad = [{"kind": "pack", "algo": a, "values": [3, 9, 2], "param": 5} for a in ("ff", "bfd", "bc")] + \
          [{"kind": "partition", "algo": "cbldm", "values": [3, 1, 2], "param": 3}, {"kind": "partition", "algo": "rnp", "values": [1, 2, 4], "param": 7}]
    rng.shuffle(calls)
    groups = []
    G = 250 if tier == "quick" else 2500
    for g in range(G):
        size = rng.randint(3, 7)
        grp = [rng.choice(calls) for _ in range(size)] + ([rng.choice(bad)] if rng.random() < 0.5 else [])
        fm = [rng.choice(["list", "array", "dict", "names"]) for _ in grp]
        specs = []
        for c, f in zip(grp, fm):
            if c["algo"] == "bc" and f in ("dict", "names"):
                f = "list"
            specs.append(_spec(c, f))
        groups.append({"calls": specs, "order_seed": rng.randint(0, 10 ** 6)})
    rep.add(H.run_case("C15/T3/all-algorithms/pure-repeatable-history-independent", "prtpy.partition / prtpy.pack (all algorithms)", T.c15_case, groups,
                       f"{G} seeded groups of 3..8 calls drawn from the domains of C01/C03/C05 (reduced), incl. failing calls; each call twice in isolation, then the group interleaved in a seeded order with every call repeated; inputs deep-compared before/after", chunk=8))


def run(rep, tier, seed):
    rep.level = "exploration"
    rep.assume("A4", "A6", "A8")
    D.run_static(rep, "C15", ("frame", "purity"))
    t3(rep, tier, seed)
