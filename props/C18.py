"""C18 - results respect problem symmetries; exact solvers agree beyond oracle size."""
import random
from runtime import harness as H
from props import _ded as D
from runtime import t3_misc as T
from runtime.common import CG_SWITCHES

FACTORS = [2, 3, 7, 10, 2 ** 10]


def t3(rep, tier, seed):
    rng = random.Random(seed)
    N, V, K = (4, 4, 3) if tier == "quick" else (5, 5, 4)
    ms = [m for m in H.multisets(N, V) if len(m) >= 2]
    rnd = [[rng.randint(0, 40) for _ in range(rng.randint(4, 7))] for _ in range(15 if tier == "quick" else 150)]
    for algo in ("dp", "ilp", "ckk", "snp", "rnp", "cg"):
        dom = []
        vs = (ms[::3] + rnd[:8]) if algo == "ilp" else ms + rnd
        for v in vs:
            for k in (2, 3) + ((4,) if K >= 4 and algo != "ilp" else ()):
                objs = ("difference",) if algo in ("ckk", "snp", "rnp") else ("difference", "min-max", "max-min")
                for o in objs:
                    d = {"algo": algo, "values": [min(x, 200 // 10) for x in v] if algo == "ilp" else v, "k": k, "obj": o, "perm_seed": rng.randint(0, 999),
                         "factor": rng.choice(FACTORS if algo != "ilp" else [2, 3, 7, 10]), "zeros": rng.randint(1, 3)}
                    if algo == "cg":
                        d["cg"] = list(rng.choice(CG_SWITCHES))
                    dom.append(d)
        rep.add(H.run_case(f"C18/T3/{algo}/symmetries", f"prtpy.partitioning::{algo}", T.c18_exact_case, dom,
                           f"multisets n<={N} of 0..{V} + seeded random n<=7; one seeded permutation, one factor of {{2,3,7,10,2^10}}, 1..3 added zeros per input", chunk=32))
    for kind, algo in [("partition", a) for a in ("greedy", "roundrobin", "kk", "multifit")] + [("pack", a) for a in ("ff", "ffd", "bf", "bfd", "decreasing", "twothirds", "threequarters")]:
        dom = []
        for v in ms + rnd:
            if kind == "partition":
                params = (2, 3)
            elif algo in ("decreasing", "twothirds", "threequarters"):
                params = (6, 12)
                if min(v) < 1:
                    continue
            else:
                params = (max(v) if max(v) > 0 else 1, max(max(v), 1) + 3)
            for p in params:
                f = rng.choice([2, 2 ** 10] if algo == "multifit" else FACTORS)
                dom.append({"kind": kind, "algo": algo, "values": v, "param": p, "perm_seed": rng.randint(0, 999), "factor": f})
        rep.add(H.run_case(f"C18/T3/{algo}/reorder+scale", f"prtpy::{algo}", T.c18_heur_case, dom,
                           "same inputs; reorder (sorting algorithms) and scale (values and bin size) relations", chunk=64))
    dom = []
    for _ in range(6 if tier == "quick" else 40):
        n = rng.randint(11, 12 if tier == "quick" else 15); k = rng.randint(2, 4)
        dom.append({"values": [rng.randint(1, 200) for _ in range(n)], "k": k})
    rep.add(H.run_case("C18/T3/exact-algorithms/agreement", "cg, dp, ilp, ckk, snp, rnp", T.c18_agree_case, dom,
                       "seeded random instances of 11..15 items (quick: 11..12), 2..4 bins, values 1..200; three objectives; heuristics never better", chunk=1))
    dom = []
    for _ in range(1000 if tier == "quick" else 8000):
        n = rng.randint(7, 9); k = rng.randint(3, 4)
        dom.append({"values": [rng.randint(1, 300) for _ in range(n)], "k": k})
    rep.add(H.run_case("C18/T3/exact-algorithms/agreement-medium-size", "cg, ckk, snp, rnp", T.c18_agree_fast_case, dom,
                       "seeded random instances of 7..9 items, 3..4 bins, values 1..300: cg = ckk = snp = rnp on the difference objective; cg with and without pruning on the other two", chunk=8))
    # the exact packer is never worse than the packing heuristics: bin-completion against FFD / BFD / the exhaustive optimum on instances whose
    # items sit on the thresholds of its pruning rules (exact halves, thirds), 7-8 items
    from props._domains import threshold_packs
    from runtime import t3_pack as TP
    rep.add(H.run_case("C18/T3/bc/never-worse-than-the-heuristics", "prtpy/packing/bin_completion.py::bin_completion", TP.c04_case, threshold_packs(tier, sizes=(8,)),
                       "threshold packs: 8 items from {B/2, B/3, B/4 and neighbours}, B in {10, 12}; oracle = exhaustive optimum, FFD, BFD", chunk=64))


def run(rep, tier, seed):
    rep.level = "exploration"
    rep.assume("A1", "A4", "A6", "A8")
    D.run_contracts(rep, "C18", D.relational(), tier)
    D.run_contracts(rep, "C18", D.bounds(), tier, also=("C13",))
    # agreement of the exact algorithms and "never worse than a heuristic" rest on their optimality (C02): the whole-search contracts
    D.run_contracts(rep, "C18", D.exact(), "lite" if tier == "quick" else tier, also=("C02",), only_tagged=True)
    D.run_static(rep, "C18", ("purity",))      # every per-call contract presupposes that results are functions of the arguments
    t3(rep, tier, seed)
    D.link_falsifier(rep)
