"""C05 - bin-covering results are valid covers that waste less than one bin."""
import random
from runtime import harness as H
from props import _ded as D
from runtime import t3_pack as T
from props._domains import cover_inputs


def t3(rep, tier, seed):
    rng = random.Random(seed)
    base = cover_inputs(tier, rng)
    bound = "all multisets n<=5..7 of values 1..Z+2 for Z in {6,10,12}; all orders n<=3; seeded random n<=12; list and dict inputs"
    for algo in ("decreasing", "twothirds", "threequarters"):
        dom = [dict(d, algo=algo) for d in base]
        dom += [dict(d, algo=algo, fmt=f) for d in base[::7] for f in ("dict", "intdict")]
        rep.add(H.run_case(f"C05/T3/{algo}/valid-cover", f"prtpy.packing.covering::{algo}", T.c05_case, dom, bound))


def run(rep, tier, seed):
    rep.level = "exploration"
    rep.assume("A1", "A2", "A4", "A5", "A6", "A8")
    D.run_contracts(rep, "C05", D.COVER + D.TQ, tier, with_lemmas=True)
    D.run_static(rep, "C05", ("purity",))      # every per-call contract presupposes that results are functions of the arguments
    D.run_contracts(rep, "C05", D.relational(), tier, only_tagged=True)      # the same postconditions at bounded shape on the real manager classes: concrete, replayable counter-models
    t3(rep, tier, seed)
    D.link_falsifier(rep)
