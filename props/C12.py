"""C12 - balanced 2-way partitioning obeys the cardinality bound and is optimal under it."""
import random
from runtime import harness as H
from props import _ded as D
from runtime import t3_part as T


def t3(rep, tier, seed):
    rng = random.Random(seed)
    N, V = (6, 4) if tier == "quick" else (7, 6)
    ms = list(H.multisets(N, V))
    rnd = [[rng.randint(0, 100) for _ in range(rng.randint(5, 10))] for _ in range(60 if tier == "quick" else 1500)]
    dom = [{"values": v, "d": d} for v in ms + rnd for d in (None, 1, 2, 3, len(v))]
    from props._domains import repeated_value_lists, large_value_variants
    dom += [{"values": v, "d": d} for v in repeated_value_lists(tier) for d in (1, 2)]          # long runs of equal values, 7-8 items
    dom += [{"values": v, "d": d} for v in large_value_variants(ms[::7]) for d in (None, 1)]    # sums ~1e7 differing by a few units
    # long searches (a thousand nodes and more): 15-17 items with large spread, where CBLDM really has to backtrack
    for _ in range(6 if tier == "quick" else 40):
        v = [rng.randint(1, 10 ** 5) for _ in range(rng.randint(15, 17))]
        dom += [{"values": v, "d": None}, {"values": v, "d": 1}]
    rep.add(H.run_case("C12/T3/cbldm/balanced-optimal", "prtpy/partitioning/cbldm.py::cbldm", T.c12_case, dom,
                       f"all multisets n<={N} of 0..{V} + seeded random n<=10; bounds {{default,1,2,3,n}}; oracle = all 2^n subsets obeying the bound"))


def run(rep, tier, seed):
    rep.level = "exploration"
    rep.assume("A1", "A4", "A6", "A8")
    D.run_contracts(rep, "C12", D.CBLDM, tier)
    D.run_static(rep, "C12", ("purity",))      # every per-call contract presupposes that results are functions of the arguments
    t3(rep, tier, seed)
    D.link_falsifier(rep)
