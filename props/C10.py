"""C10 - bin-covering heuristics meet their approximation guarantees."""
import random
from runtime import harness as H
from props import _ded as D
from runtime import t3_pack as T
from props._domains import cover_inputs


def worst_case_families():
    """Published tight families: for next-fit-decreasing  (Assmann et al.): 6m items of 1/2-ish... scaled to integers."""
    fam = []
    for m in (1, 2, 3):
        B = 12 * m
        # decreasing heuristic ~1/2: m items of size B-1... and many small ones
        fam.append(([B - 1] * (2 * m) + [1] * (2 * m), B, 2 * m))
        # two-thirds family
        fam.append(([B // 2] * (4 * m) + [B // 4] * (4 * m), B, None))
        # three-quarters family
        fam.append(([B // 2 + 1] * (2 * m) + [B // 3] * (4 * m) + [1] * (6 * m), B, None))
    # the same tight shapes at large OPT (known by construction): the guarantees differ by an additive constant, so a weaker heuristic behind a
    # stronger one's name only shows beyond OPT ~ 40
    for m in (12, 24, 48, 72, 96):
        fam.append(([499] * (2 * m) + [1] * (2 * m), 1000, m))            # tight for two-thirds: two 499 + two 1 fill a bin exactly
        fam.append(([999] * (2 * m) + [1] * (2 * m), 1000, 2 * m))        # tight for next-fit decreasing
    return fam


def t3(rep, tier, seed):
    rng = random.Random(seed)
    base = [d for d in cover_inputs(tier, rng) if len(d["values"]) <= (10 if tier == "quick" else 13)]
    bound = "cover domain of C05 with n<=10 (quick) / 13 (thorough); OPT from an exhaustive subset oracle; planted exactly-full instances up to 300 items; worst-case style families"
    for algo in ("decreasing", "twothirds", "threequarters"):
        dom = [dict(d, algo=algo) for d in base]
        for vals, B, opt in worst_case_families():
            if opt is not None or len(vals) <= 14:
                dom.extend({"algo": algo, "values": vals, "B": B, "opt": opt, "fmt": fmt} for fmt in ("list", "names", "dict", "names:asc", "names:valley", "names:pyramid"))
        rep.add(H.run_case(f"C10/T3/{algo}/ratio", f"prtpy.packing.covering::{algo}", T.c10_case, dom, bound, chunk=32))
        pl = []
        for _ in range(40 if tier == "quick" else 400):
            nb = rng.randint(3, 60); B = rng.choice([12, 60, 100])
            pl.append({"algo": algo, "values": T.planted_perfect_packing(rng, nb, B, 5), "B": B, "opt": nb, "fmt": ("list", "names", "dict", "array", "names:asc", "names:desc", "names:valley", "names:pyramid")[len(pl) % 8]})
        rep.add(H.run_case(f"C10/T3/{algo}/planted-ratio", f"prtpy.packing.covering::{algo}", T.c10_case, pl, "planted instances built as OPT exactly-full bins (3..60 bins, <=5 items per bin), presented in turn as list / names+valueof / dict / array / names whose order is adversarial to the values (ascending, descending, valley, pyramid)"))


def run(rep, tier, seed):
    rep.level = "exploration"
    rep.assume("A1", "A4", "A6", "A7", "A8")
    D.run_contracts(rep, "C10", D.COVER + D.TQ, tier, with_lemmas=True, also=('C05',))
    D.run_static(rep, "C10", ("purity",))      # every per-call contract presupposes that results are functions of the arguments
    t3(rep, tier, seed)
    D.link_falsifier(rep)
