"""./check <ID> --tier quick|thorough : run every obligation of one property against /repo's current working tree."""
import argparse, importlib, json, os, sys, traceback
from pyvc.report import Report, finish


def main():
    ap = argparse.ArgumentParser()
    ap.add_argument("prop")
    ap.add_argument("--tier", default=os.environ.get("VERIF_TIER", "quick"), choices=["quick", "thorough"])
    ap.add_argument("--replay")
    a = ap.parse_args()
    seed = int(os.environ.get("VERIF_SEED", "0"))
    replay_ob = None
    if a.replay:
        # replay = re-run exactly the failed obligation: a T3 contract on the recorded input, a deductive obligation from the current source
        w = json.load(open(a.replay))
        replay_ob = w["obligation"]
        os.environ["VERIF_REPLAY_OB"] = replay_ob
        inp = (w.get("witness") or {}).get("input") if isinstance(w.get("witness"), dict) else None
        if w.get("tier") == "T3" and inp is not None:
            os.environ["VERIF_REPLAY_INPUT"] = json.dumps(inp)
        os.environ["VERIF_EVIDENCE_DIR"] = os.path.join(os.environ.get("VERIF_OUT_DIR", os.path.join(os.path.dirname(os.path.dirname(os.path.abspath(__file__))), "out")), "replay-evidence")
        print(f"[{a.prop}] replaying obligation {replay_ob} ({w.get('tier')}) from {a.replay}")
    rep = Report(a.prop, a.tier, seed)
    try:
        mod = importlib.import_module("props." + a.prop)
        mod.run(rep, a.tier, seed)
        from props._levels import LEVELS
        rep.level = LEVELS[a.prop]["category"]          # the claimed level; finish() downgrades it when the run did not achieve it
        rep.explanation = LEVELS[a.prop]["text"]
    except Exception:
        traceback.print_exc()
        print(f"[{a.prop}] engine failure (exit 3): this is a fault of the checker, not a verdict on the property")
        sys.exit(3)
    if replay_ob is not None:
        rep.obs = [o for o in rep.obs if o.id == replay_ob]
        if not rep.obs:
            print(f"[{a.prop}] obligation {replay_ob} is not generated from the current source: nothing to replay (exit 2)")
            sys.exit(2)
        for o in rep.obs:
            print(f"  {o.id}: {o.status} {o.detail[:300]}")
    sys.exit(finish(rep))


if __name__ == "__main__":
    main()
