"""./check <ID> --tier quick|thorough : run every obligation of one property against /repo's current working tree."""
import argparse, importlib, json, os, sys, traceback
from pyvc.report import Report, finish


def main():
    ap = argparse.ArgumentParser()
    ap.add_argument("prop")
    ap.add_argument("--tier", default=os.environ.get("VERIF_TIER", "quick"), choices=["quick", "thorough"])
    ap.add_argument("--replay")
    a = ap.parse_args()
    seed = int(os.environ.get("VERIF_SEED", "0"))
    if a.replay:
        from pyvc.replay import replay
        sys.exit(replay(a.prop, a.replay))
    rep = Report(a.prop, a.tier, seed)
    try:
        mod = importlib.import_module("props." + a.prop)
        mod.run(rep, a.tier, seed)
        from props._levels import LEVELS
        rep.level = LEVELS[a.prop]["category"]          # the claimed level; finish() downgrades it when the run did not achieve it
        rep.explanation = LEVELS[a.prop]["text"]
    except Exception:
        traceback.print_exc()
        print(f"[{a.prop}] engine failure (exit 3): this is a fault of the checker, not a verdict on the property")
        sys.exit(3)
    sys.exit(finish(rep))


if __name__ == "__main__":
    main()
