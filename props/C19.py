"""C19 - unsatisfiable or malformed requests are refused with an error, never answered."""
import random, sys
from runtime import harness as H
from props import _ded as D
from runtime import t3_pack as T

OTS = ["Partition", "Sums", "BinCount", "PartitionAndSumsTuple", "LargestSum", "SortedSums"]


def t3(rep, tier, seed):
    rng = random.Random(seed)
    N = 4 if tier == "quick" else 5
    for algo in ("ff", "ffd", "bf", "bfd", "bc"):
        dom = []
        for seq in H.sequences(N, 5, 1 if algo == "bc" else 0):
            B = 3
            if any(v > B for v in seq):
                dom.append({"algo": algo, "values": seq, "B": B})
        fmts = ("dict", "names", "array", "dict+valueof") if algo != "bc" else ("array",)
        dom += [dict(d, fmt=f, ot=ot) for d in dom[::17] for f in fmts for ot in OTS]
        dom += [dict(d, ot=ot) for d in dom[:2000:13] for ot in OTS if "ot" not in d]
        for _ in range(100 if tier == "quick" else 2000):
            n = rng.randint(1, 12); B = rng.choice([10, 50]); vals = [rng.randint(0 if algo != "bc" else 1, B) for _ in range(n)]
            for _ in range(rng.randint(1, 3)):
                vals[rng.randrange(n)] = B + rng.randint(1, 3)
            dom.append({"algo": algo, "values": vals, "B": B, "ot": rng.choice(OTS)})
        rep.add(H.run_case(f"C19/T3/{algo}/oversize-raises-ValueError", f"prtpy.packing::{algo}", T.c19_case, dom,
                           f"every sequence n<={N} over 0..5 with B=3 containing an oversize item (every position/multiplicity), formats x output types on a sub-sample, seeded random n<=12"))
    vals_list = [[1], [3, 1], [2, 2, 5], [0, 4, 1, 7], [5, 8, 13, 27, 14]]
    kinds = [["numbins", k] for k in (0, 1, 3, 4, 7, -2, 2.5, 2.9, 1.5)] + [["negative", i] for i in range(5)] \
        + [["time_limit", t] for t in (0, -1, -0.5, -1e-9)] + [["partition_difference", d] for d in (0, -1, -7, 1.5, 2.0, 0.5)]
    kinds += [k + [ot] for k in kinds for ot in ("Sums", "BinCount")]
    dom = [{"kind": k, "values": v} for k in kinds for v in vals_list]
    rep.add(H.run_case("C19/T3/cbldm/malformed-raises-ValueError", "prtpy/partitioning/cbldm.py::cbldm", T.c19_cbldm_case, dom,
                       "exactly one invalid argument: numbins in {0,1,3,4,7,-2,2.5,2.9,1.5} (through the public adaptor); one negative item at each position; time_limit in {0,-1,-0.5,-1e-9}; partition_difference in {0,-1,-7,1.5,2.0,0.5}; 5 item lists; 3 output types", nproc=1))
    dom = [{"k": k, "values": v, "j": j} for k in (1, 2, 3) for v in ([], [1], [1, 2, 3], [0, 0]) for j in range(3)]
    rep.add(H.run_case("C19/T3/BinnerKeepingSums.numitems/raises-NotImplementedError", "prtpy/binners.py::BinnerKeepingSums.numitems", T.c19_numitems_case, dom,
                       "bins-arrays of 1..3 bins with 0..3 items added", nproc=1))


def run(rep, tier, seed):
    rep.level = "exploration"
    rep.assume("A1", "A2", "A4", "A5", "A6", "A8")
    D.run_contracts(rep, "C19", D.FIT, tier, with_lemmas=False)
    D.run_contracts(rep, "C19", [("contracts.binners", "sums_numitems"), ("contracts.exact", "cbldm_arguments"), ("contracts.bincompletion", "bin_completion_oversize")], tier)
    D.run_static(rep, "C19", ("purity",))      # every per-call contract presupposes that results are functions of the arguments
    t3(rep, tier, seed)
    D.link_falsifier(rep)
