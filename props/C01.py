"""C01 - every partitioner returns a true partition into the requested number of bins."""
import random
from runtime import harness as H
from props import _ded as D
from runtime import t3_part as T
from runtime.common import CG_SWITCHES

SIMPLE = ["greedy", "roundrobin", "multifit", "kk", "ckk", "snp", "dp", "ilp"]
RNP_WITNESSES = []


def t3(rep, tier, seed):
    rng = random.Random(seed)
    N, V, K = (5, 4, 4) if tier == "quick" else (6, 5, 5)
    ms = list(H.multisets(N, V))
    extra = [[rng.randint(0, 2 ** 10) for _ in range(rng.randint(2, 9))] for _ in range(40 if tier == "quick" else 300)]
    extra += [[rng.randint(0, 2 ** 40) for _ in range(rng.randint(2, 8))] for _ in range(20 if tier == "quick" else 150)]
    bound = f"all multisets of n<={N} values in 0..{V} x numbins 1..{K} (incl. numbins>n, zeros, all-equal) + {len(extra)} seeded random lists (n<=9, values up to 2^10 / 2^40)"
    for algo in SIMPLE:
        dom = [{"algo": algo, "values": v, "k": k} for v in ms for k in range(1, K + 1)]
        ex = extra if algo not in ("ilp", "dp") else [e for e in extra if len(e) <= 6 and max(e) <= 2 ** 10]
        if algo == "ilp":
            dom = [d for d in dom if len(d["values"]) <= (4 if tier == "quick" else 5)]
            ex = [[min(x, 200) for x in e] for e in ex][:10]
        dom += [{"algo": algo, "values": v, "k": k} for v in ex for k in (2, 3, 4)]
        # other presentations of the same values
        dom += [{"algo": algo, "values": v, "k": k, "fmt": f} for v in ms if 2 <= len(v) <= 3 for k in (2, 3) for f in ("dict", "names", "array")]
        rep.add(H.run_case(f"C01/T3/{algo}/partition", f"prtpy.partitioning::{algo}", T.c01_case, dom, bound))
    # cbldm: two bins only
    dom = [{"algo": "cbldm", "values": v, "k": 2, "fmt": f} for v in ms + extra for f in (("list", "dict") if len(v) <= 3 else ("list",))]
    rep.add(H.run_case("C01/T3/cbldm/partition", "prtpy/partitioning/cbldm.py::cbldm", T.c01_case, dom, bound + "; numbins=2"))
    # rnp: 1..5 bins is the documented range; 6,7,8 are exercised separately (known finding K1)
    dom = [{"algo": "rnp", "values": v, "k": k} for v in ms for k in range(1, 6)]
    dom += [{"algo": "rnp", "values": v, "k": k} for v in extra for k in (2, 3, 4, 5)]
    dom += [{"algo": "rnp", "values": v, "k": k, "fmt": f} for v in ms if 2 <= len(v) <= 3 for k in (2, 3) for f in ("dict", "names")]
    rep.add(H.run_case("C01/T3/rnp/partition[k<=5]", "prtpy/partitioning/recursive_number_partitioning_sy.py::rnp", T.c01_case, dom, bound + "; numbins 1..5"))
    dom = [{"algo": "rnp", "values": v, "k": k} for v in ms if len(v) >= 3 for k in (6, 7, 8)]
    rep.add(H.run_case("C01/T3/rnp/partition[k>=6]", "prtpy/partitioning/recursive_number_partitioning_sy.py::rnp", T.c01_case, dom, bound + "; numbins 6..8"))
    # complete greedy: 3 objectives x 16 switch combinations
    cgms = ms if tier == "thorough" else [m for m in ms if len(m) <= 4] + [m for m in ms if len(m) == 5][::3]
    for objname in ("difference", "min-max", "max-min"):
        dom = [{"algo": "cg", "values": v, "k": k, "cg": [objname, list(sw)]} for sw in CG_SWITCHES for v in cgms for k in range(1, K + 1)]
        dom += [{"algo": "cg", "values": v, "k": k, "cg": [objname, list(sw)]} for sw in CG_SWITCHES for v in extra if len(v) <= 7 for k in (2, 3)]
        rep.add(H.run_case(f"C01/T3/cg[{objname}]/partition-never-None", "prtpy/partitioning/complete_greedy.py::anytime", T.c01_case, dom,
                           bound + "; all 16 switch combinations", chunk=256))


def run(rep, tier, seed):
    rep.level = "exploration"
    rep.assume("A1", "A2", "A4", "A5", "A6", "A8")
    D.run_contracts(rep, "C01", D.PART_HEUR + D.MULTIFIT + D.exact() + D.CBLDM + D.heur() + D.cg16(tier), tier, with_lemmas=False, also=("C12",))
    D.run_static(rep, "C01", ("purity",))      # every per-call contract presupposes that results are functions of the arguments
    D.run_contracts(rep, "C01", D.relational(), tier, only_tagged=True)      # the same postconditions at bounded shape on the real manager classes: concrete, replayable counter-models
    t3(rep, tier, seed)
    D.link_falsifier(rep)
