"""C14 - simple heuristics compute exactly what their textbook definitions prescribe."""
import random
from runtime import harness as H
from props import _ded as D
from runtime import t3_pack as T
from props._domains import pack_inputs, cover_inputs


def t3(rep, tier, seed):
    rng = random.Random(seed)
    N, V, K = (5, 4, 4) if tier == "quick" else (6, 6, 5)
    ms = list(H.multisets(N, V))
    rnd = [[rng.randint(0, 50) for _ in range(rng.randint(3, 12))] for _ in range(60 if tier == "quick" else 800)]
    for algo in ("greedy", "roundrobin"):
        dom = [{"algo": algo, "values": v, "param": k} for v in ms + rnd for k in range(1, K + 1)]
        dom += [{"algo": algo, "values": v, "param": k, "fmt": "dict"} for v in ms[::9] for k in (2, 3)]
        # many bins (a fast path for large bin counts would only show here) and adversarially ordered names
        dom += [{"algo": algo, "values": v, "param": k} for v in rnd if len(v) >= 10 for k in (9, 12, 17)]
        dom += [{"algo": algo, "values": v, "param": 3, "fmt": f} for v in rnd[::4] for f in ("names:asc", "names:desc", "names:valley", "names:pyramid")]
        rep.add(H.run_case(f"C14/T3/{algo}/textbook-rule", f"prtpy.partitioning::{algo}", T.c14_case, dom,
                           f"all multisets n<={N} of 0..{V} x numbins 1..{K} + seeded random (n<=12), also with 9/12/17 bins and with names ordered against the values; reference transcription in spec/oracles.py"))
    base = pack_inputs(tier, rng)
    for algo in ("ff", "ffd", "bf", "bfd"):
        dom = [{"algo": algo, "values": d["values"], "param": d["B"], **({"scale": d["scale"]} if d.get("scale") else {})} for d in base]
        dom += [{"algo": algo, "values": d["values"], "param": d["B"], "fmt": f} for d in base[::23] if not d.get("scale") for f in ("names:asc", "names:desc", "names:valley", "names:pyramid")]
        rep.add(H.run_case(f"C14/T3/{algo}/textbook-rule", f"prtpy.packing::{algo}", T.c14_case, dom, "B(N,Z) of C03 incl. exact fills, ties, multiples of 1/8"))
    cbase = cover_inputs(tier, rng)
    # thresholds binsize/2 and binsize/3 are hit exactly for Z in {6,12}
    for algo in ("decreasing", "twothirds", "threequarters"):
        dom = [{"algo": algo, "values": d["values"], "param": d["B"]} for d in cbase]
        dom += [{"algo": algo, "values": d["values"], "param": d["B"], "fmt": "dict"} for d in cbase[::11]]
        rep.add(H.run_case(f"C14/T3/{algo}/textbook-rule", f"prtpy.packing.covering::{algo}", T.c14_case, dom, "cover domain of C05 incl. items equal to binsize/2 and binsize/3 (Z=6,12)"))


def run(rep, tier, seed):
    rep.level = "exploration"
    rep.assume("A1", "A2", "A4", "A5", "A6", "A8")
    D.run_contracts(rep, "C14", D.PART_HEUR + D.FIT + D.COVER + D.TQ, tier, with_lemmas=True)
    D.run_static(rep, "C14", ("purity",))      # every per-call contract presupposes that results are functions of the arguments
    t3(rep, tier, seed)
    D.link_falsifier(rep)
