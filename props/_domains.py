"""Deterministic T3 domains for packing / covering (DESIGN section 5: B(N,Z))."""
import itertools, random
from runtime import harness as H


def pack_inputs(tier, rng, algos_online=("ff", "bf"), algos_sorted=("ffd", "bfd"), zero_ok=True):
    """Yield dicts {values,B[,scale]}: every arrival order for small inputs, multisets in several orders beyond."""
    out = []
    nseq, zseq = (4, 6) if tier == "quick" else (5, 6)
    for seq in H.sequences(nseq, zseq, 0 if zero_ok else 1):
        out.append({"values": seq, "B": zseq, "order": "all"})
    for Z, N in ((10, 4 if tier == "quick" else 6), (12, 4 if tier == "quick" else 5)):
        for m in H.multisets(N, Z, 0 if zero_ok else 1, nmin=3):
            out.append({"values": m, "B": Z})
            out.append({"values": m[::-1], "B": Z})
            if len(m) >= 3:
                mm = list(m); rng.shuffle(mm)
                out.append({"values": mm, "B": Z})
    # exactly representable fractions: multiples of 1/8 with bin size 1 and 3/2
    nf = 4 if tier == "quick" else 5
    for m in H.sequences(nf, 8, 0 if zero_ok else 1, nmin=2):
        if tier == "quick" and (sum(m) % 3):  # thin out deterministically
            continue
        out.append({"values": m, "B": 8, "scale": 8})
    for m in H.multisets(nf, 12, 0 if zero_ok else 1, nmin=3):
        out.append({"values": m[::-1], "B": 12, "scale": 8})
    for _ in range(60 if tier == "quick" else 600):
        n = rng.randint(5, 12)
        B = rng.choice([20, 50, 100])
        out.append({"values": [rng.randint(0 if zero_ok else 1, B) for _ in range(n)], "B": B})
    return out


def cover_inputs(tier, rng):
    out = []
    for Z, N in ((6, 5 if tier == "quick" else 7), (10, 5 if tier == "quick" else 6), (12, 4 if tier == "quick" else 6)):
        for m in H.multisets(N, Z + 2, 1):
            out.append({"values": m, "B": Z})
    for m in H.multisets(3, 4, 1):
        for perm in set(itertools.permutations(m)):
            out.append({"values": list(perm), "B": 4})
    for _ in range(80 if tier == "quick" else 1500):
        n = rng.randint(4, 12)
        B = rng.choice([12, 30, 60, 100])
        out.append({"values": [rng.randint(1, B + 5) for _ in range(n)], "B": B})
    return out
