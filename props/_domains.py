"""Deterministic T3 domains for packing / covering (DESIGN section 5: B(N,Z))."""
import itertools, random
from runtime import harness as H


def pack_inputs(tier, rng, algos_online=("ff", "bf"), algos_sorted=("ffd", "bfd"), zero_ok=True):
    """Yield dicts {values,B[,scale]}: every arrival order for small inputs, multisets in several orders beyond."""
    out = []
    nseq, zseq = (4, 6) if tier == "quick" else (5, 6)
    for seq in H.sequences(nseq, zseq, 0 if zero_ok else 1):
        out.append({"values": seq, "B": zseq, "order": "all"})
    for Z, N in ((10, 4 if tier == "quick" else 6), (12, 4 if tier == "quick" else 5)):
        for m in H.multisets(N, Z, 0 if zero_ok else 1, nmin=3):
            out.append({"values": m, "B": Z})
            out.append({"values": m[::-1], "B": Z})
            if len(m) >= 3:
                mm = list(m); rng.shuffle(mm)
                out.append({"values": mm, "B": Z})
    # exactly representable fractions: multiples of 1/8 with bin size 1 and 3/2
    nf = 4 if tier == "quick" else 5
    for m in H.sequences(nf, 8, 0 if zero_ok else 1, nmin=2):
        if tier == "quick" and (sum(m) % 3):  # thin out deterministically
            continue
        out.append({"values": m, "B": 8, "scale": 8})
    for m in H.multisets(nf, 12, 0 if zero_ok else 1, nmin=3):
        out.append({"values": m[::-1], "B": 12, "scale": 8})
    for _ in range(60 if tier == "quick" else 600):
        n = rng.randint(5, 12)
        B = rng.choice([20, 50, 100])
        out.append({"values": [rng.randint(0 if zero_ok else 1, B) for _ in range(n)], "B": B})
    # many open bins (code paths that only start beyond a dozen bins): one early roomy bin, 17-20 nearly full ones, then a small item
    for B in (10,):
        for nbig in ((17,) if tier == "quick" else (17, 18, 20, 33)):
            for a in range(1, B, 2 if tier == "quick" else 1):
                for b in range(1, B, 3 if tier == "quick" else 1):
                    out.append({"values": [a] + [B - 1] * nbig + [b], "B": B})
                    out.append({"values": [B - 1] * nbig + [a, b], "B": B})
    return out


def cover_inputs(tier, rng):
    out = []
    for Z, N in ((6, 5 if tier == "quick" else 7), (10, 5 if tier == "quick" else 6), (12, 4 if tier == "quick" else 6)):
        for m in H.multisets(N, Z + 2, 1):
            out.append({"values": m, "B": Z})
    for m in H.multisets(3, 4, 1):
        for perm in set(itertools.permutations(m)):
            out.append({"values": list(perm), "B": 4})
    for _ in range(80 if tier == "quick" else 1500):
        n = rng.randint(4, 12)
        B = rng.choice([12, 30, 60, 100])
        out.append({"values": [rng.randint(1, B + 5) for _ in range(n)], "B": B})
    return out


# ------------------------------------------------------------------------------------------------ stress families (deterministic)
def threshold_packs(tier, sizes=(7, 8), binsizes=(10, 12), per_size=None):
    """bin-packing instances built from the values that sit ON the thresholds of pruning rules: binsize/2, /3, /4 and their neighbours,
    7-8 items (beyond what the exhaustive part of the domain reaches): exact halves that share a bin, exact thirds, exact fills."""
    out = []
    for B in binsizes:
        pool = sorted({B // 2, B // 3, B // 4, B // 2 + 1, B // 2 - 1, B // 3 + 1, B // 3 - 1, B // 4 + 1, B // 5, 2, 3} - {0}) if B > 12 else \
            sorted({B // 2, B // 3, B // 4, B // 2 + 1, B // 2 - 1, B // 3 + 1, 2, 3} - {0})
        for k in sizes:
            combos = list(itertools.combinations_with_replacement(pool, k))
            random.Random(B * 100 + k).shuffle(combos)
            for m in combos[: (per_size or (2000 if tier == "quick" else 20000))]:
                out.append({"values": sorted(m, reverse=True), "B": B})
    return out


def repeated_value_lists(tier, sizes=(7, 8)):
    """partitioning instances with long runs of equal values (7-8 items from a pool of 4 values)"""
    out = []
    for pool in ((1, 2, 6), (1, 2, 5, 6), (0, 1, 3), (2, 3, 7)):
        for k in sizes:
            combos = list(itertools.combinations_with_replacement(pool, k))
            random.Random(len(pool) * 10 + k).shuffle(combos)
            out += [list(m) for m in combos[: (30 if tier == "quick" else 400)]]
    return out


def large_value_variants(small_lists, offsets=(10 ** 7,)):
    """the same small instances with a large common offset on their two largest items: sums of the order of 1e7 that differ by a few units
    (what a relative tolerance confuses)"""
    out = []
    for v in small_lists:
        if len(v) < 3:
            continue
        for off in offsets:
            w = sorted(v, reverse=True)
            out.append([w[0] + off, w[1] + off] + w[2:])
            if len(w) >= 4:
                out.append([w[0] + off, w[1] + off, w[2] + off] + w[3:])
    return out
