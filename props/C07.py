"""C07 - the answer does not depend on how the items are presented."""
import random
from runtime import harness as H
from props import _ded as D
from runtime import t3_misc as T
from props._algos import partition_calls, pack_calls


def t3(rep, tier, seed):
    rng = random.Random(seed)
    calls = [c for c in partition_calls(tier, rng) + pack_calls(tier, rng) if len(c["values"]) >= 1]
    by = {}
    for c in calls:
        by.setdefault(c["algo"], []).append(c)
    for algo, dom in by.items():
        if algo == "bc":
            # bin-completion: the unnamed presentations must agree; the named ones are known finding K3
            rep.add(H.run_case("C07/T3/bc/presentation-independent[list,array]", "prtpy/packing/bin_completion.py::bin_completion", T.c07_case,
                               [dict(c, fmts=["list", "array"]) for c in dom], "bin-completion, list vs ndarray", chunk=32))
            rep.add(H.run_case("C07/T3/bc/presentation-independent[named]", "prtpy/packing/bin_completion.py::bin_completion", T.c07_case,
                               [dict(c, fmts=["list", "dict", "intdict", "names"]) for c in dom if len(c["values"]) >= 2][:300], "bin-completion, named presentations", chunk=32))
            continue
        rep.add(H.run_case(f"C07/T3/{algo}/presentation-independent", f"prtpy::{algo}", T.c07_case, dom,
                           "domains of C01/C03/C05 reduced (n<=4/5); list, ndarray, dict with str names, dict with int names, names+valueof; names in pseudo-random order unrelated to values", chunk=32))


def t3_positional_options(rep, tier, seed):
    """options that are indexed by item POSITION (ilp's copies list) on inputs with repeated values: looking the option up by the item itself
    instead of by its position works for names and fails for plain numbers"""
    rng = random.Random(seed + 7)
    dom = []
    for _ in range(6 if tier == "quick" else 40):
        n = rng.randint(3, 5)
        vals = [rng.randint(1, 9) for _ in range(n)]
        vals[rng.randrange(1, n)] = vals[0]                  # at least one repeated value
        dom.append({"kind": "partition", "algo": "ilp", "values": vals, "param": 2, "kw": {"copies": [rng.randint(1, 3) for _ in range(n)]}})
    rep.add(H.run_case("C07/T3/ilp/presentation-independent[copies-list,repeated-values]", "prtpy::ilp", T.c07_case, dom,
                       "3..5 items with a repeated value, a copies list of 1..3 per position, 2 bins; five presentations", chunk=2))


def t3_enumerator(rep, tier):
    """ckk / snp / rnp are presentation-independent only if the bin-combination enumerator yields every distinct pairing whatever the contents
    look like (lists of equal numbers vs. distinct names): the C13 contract of all_combinations on 5-bin arrays with many coinciding bins"""
    import itertools
    pool5 = [[], [1], [2]]
    dom = [{"b1": [list(x) for x in b1], "b2": [list(x) for x in b2]} for b1 in itertools.combinations_with_replacement(pool5, 5)
           for b2 in itertools.combinations_with_replacement(pool5, 5)]
    rep.add(H.run_case("C07/T3/all_combinations/complete-whatever-the-contents", "prtpy/binners.py::all_combinations", T.c13_comb_case, dom,
                       "all pairs of 5-bin arrays over a pool of 3 small bins (many equal bins); both managers", chunk=64))


def run(rep, tier, seed):
    rep.level = "exploration"
    rep.assume("A1", "A4", "A6", "A7", "A8")
    D.run_contracts(rep, "C07", D.PART_HEUR + D.FIT + D.COVER + D.TQ, tier, with_lemmas=False, only_tagged=True)
    D.run_contracts(rep, "C07", D.exact() + D.CBLDM, "lite" if tier == "quick" else tier, only_tagged=True)       # only their opacity obligations are claimed here
    D.run_contracts(rep, "C07", D.adaptors(), tier, only_tagged=True)
    D.run_static(rep, "C07", ("purity", "opacity"))      # every per-call contract presupposes that results are functions of the arguments
    t3(rep, tier, seed)
    t3_enumerator(rep, tier)
    t3_positional_options(rep, tier, seed)
    D.link_falsifier(rep)
