"""C16 - bins-manager operations keep sums and contents consistent, copies independent."""
import itertools, random
from runtime import harness as H
from props import _ded as D
from runtime import t3_misc as T


def exhaustive_sequences(maxlen):
    """Bounded-exhaustive: all sequences of <= maxlen operations over a pool that starts with one 2-bin array,
    a small alphabet of operations (items x,y; indices incl. negative)."""
    values = [("x", 1), ("y", 2), ("z", 0)]
    out = []

    def ext(ops, live, ctr):
        out.append({"ops": [list(o) for o in ops], "values": values})
        if len(ops) >= maxlen + 1:
            return
        for nm, k in list(live.items()):
            cands = []
            if k > 0:
                cands += [("add", nm, it, j) for it in ("x", "y") for j in sorted({0, k - 1, -1})]
                cands += [("sort", nm)]
            n = f"a{ctr + 1}"
            cands += [("copy", nm, n)]
            cands += [("add_empty", nm, n, 1)]
            if k > 0:
                cands += [("remove", nm, n, 1)]
            for other, ko in live.items():
                if other != nm:
                    cands += [("concat", nm, other, n)]
                    if k > 0 and ko > 0:
                        cands += [("combine", nm, 0, other, ko - 1)]
            for c in cands:
                l2 = dict(live)
                if c[0] == "copy":
                    l2[c[2]] = k
                elif c[0] == "add_empty":
                    del l2[nm]; l2[c[2]] = k + 1
                elif c[0] == "remove":
                    del l2[nm]; l2[c[2]] = k - 1
                elif c[0] == "concat":
                    del l2[nm]; ko = l2.pop(c[2]); l2[c[3]] = k + ko
                ext(ops + [c], l2, ctr + 1)
    ext([("new", "a0", 2)], {"a0": 2}, 0)
    return out


def t3(rep, tier, seed):
    rng = random.Random(seed)
    ex = exhaustive_sequences(3 if tier == "quick" else 4)
    rnd = [T.gen_op_sequence(rng, rng.randint(4, 14)) for _ in range(1500 if tier == "quick" else 20000)]
    # many bins (code paths that only start beyond a dozen bins): 18..24 bins, one item each with distinct values in a rotated order, then sort / copy / add
    many = []
    for nb in ((18,) if tier == "quick" else (17, 18, 20, 24)):
        for rot in (1, 5, 7):
            items = [f"y{i}" for i in range(nb)]
            values = [(it, (i * rot + 3) % nb + 1) for i, it in enumerate(items)]
            ops = [["new", "a1", nb]] + [["add", "a1", items[i], i] for i in range(nb)] + [["sort", "a1"], ["copy", "a1", "a2"], ["add", "a2", items[0], nb - 1], ["sort", "a2"], ["sort", "a1"]]
            many.append({"ops": ops, "values": values})
    # long bins (code paths that only start after many items in ONE bin): 17..40 named items with values unrelated to the names into one bin
    for n in ((17, 33) if tier == "quick" else (16, 17, 32, 33, 40)):
        items = [f"z{i}" for i in range(n)]
        values = [(it, 10 + (7 * i) % 13) for i, it in enumerate(items)]
        ops = [["new", "a1", 3]] + [["add", "a1", items[i], 0 if i % 8 else (i // 8) % 3] for i in range(n)] + [["copy", "a1", "a2"], ["sort", "a1"], ["add", "a2", items[0], 1]]
        many.append({"ops": ops, "values": values})
    for keeps, name in ((False, "BinnerKeepingSums"), (True, "BinnerKeepingContents")):
        dom = [dict(d, keeps=keeps) for d in ex + rnd + many]
        rep.add(H.run_case(f"C16/T3/{name}/operation-sequences", f"prtpy/binners.py::{name}", T.c16_case, dom,
                           f"bounded-exhaustive operation sequences of length <= {3 if tier == 'quick' else 4} over a pool starting from one 2-bin array ({len(ex)} sequences) + {len(rnd)} seeded random sequences of length 4..14 over up to 3-bin arrays; hand-over discipline respected; every live array compared with a reference model after every operation", chunk=128))


def run(rep, tier, seed):
    rep.level = "exploration"
    rep.assume("A1", "A6", "A7", "A8")
    D.run_contracts(rep, "C16", D.binners(), tier, with_lemmas=False, also=())
    D.run_static(rep, "C16", ("purity",))      # every per-call contract presupposes that results are functions of the arguments
    t3(rep, tier, seed)
    D.link_falsifier(rep)
