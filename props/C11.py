"""C11 - anytime algorithms are safe to interrupt and only ever improve."""
import random
from runtime import harness as H
from props import _ded as D
from runtime import t3_part as T
from runtime.common import CG_SWITCHES


def t3(rep, tier, seed):
    rng = random.Random(seed)
    N, V, K = (4, 3, 3) if tier == "quick" else (5, 3, 3)
    ms = list(H.multisets(N, V))
    rnd = [[rng.randint(0, 30) for _ in range(rng.randint(4, 6))] for _ in range(6 if tier == "quick" else 60)]
    bound = f"all multisets n<={N} of 0..{V} x numbins 1..{K} + seeded random n<=6; deterministic counting clock, every cut-off of the limit test enumerated"
    sws = CG_SWITCHES[::2] if tier == "thorough" else [(True, True, False, True), (False, False, False, False), (True, False, True, True), (False, True, True, False), (True, True, True, True), (False, False, False, True)]
    for objname in ("difference", "min-max", "max-min"):
        dom = [{"values": v, "k": k, "obj": objname, "cg": list(sw)} for sw in sws for v in ms + rnd for k in range(1, K + 1)]
        from props._domains import large_value_variants
        big = large_value_variants([m for m in H.multisets(5, 8, 4) if len(m) == 5][::9])      # 5 items, sums ~1e7 differing by a few units
        dom += [{"values": v, "k": k, "obj": objname, "cg": list(sw)} for sw in sws[:2] for v in big for k in (2, 3)]
        rep.add(H.run_case(f"C11/T3/cg[{objname}]/anytime", "prtpy/partitioning/complete_greedy.py::anytime", T.c11_cg_case, dom, bound, chunk=16))
    ms2 = list(H.multisets(N + 1, V))
    dom = [{"values": v, "d": d} for v in ms2 + rnd for d in (None, 1, 2)]
    rep.add(H.run_case("C11/T3/cbldm/anytime", "prtpy/partitioning/cbldm.py::cbldm", T.c11_cbldm_case, dom, bound + "; cardinality bounds {default,1,2}", chunk=16))
    dom = [{"values": v, "k": k} for v in ms2 + rnd for k in range(2, K + 1)]
    rep.add(H.run_case("C11/T3/ckk.generator/improving", "prtpy/partitioning/complete_karmarkar_karp_sy.py::generator", T.c11_ckkgen_case, dom, bound.split(";")[0] + "; numbins>=2"))


def run(rep, tier, seed):
    rep.level = "exploration"
    rep.assume("A1", "A4", "A6", "A8")
    D.run_static(rep, "C11", ("clock", "purity"))
    D.run_contracts(rep, "C11", D.c11(), tier)
    # "with no limit the result is optimal": the whole-search contracts of complete greedy (shared with C02)
    D.run_contracts(rep, "C11", [("contracts.exact", n) for n in ("cg_difference", "cg_minmax", "cg_maxmin")], "lite" if tier == "quick" else tier, also=("C02",), only_tagged=True)
    t3(rep, tier, seed)
    D.link_falsifier(rep)
