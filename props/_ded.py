"""glue between the properties and the deductive engine: which contracts carry which property, which obligations a property claims"""
import re
from pyvc import vc, lemmas
from pyvc.report import REFUTED, UNDECIDED, PROVED, Ob

_TAG = re.compile(r"/((?:C\d\d,?)+):")        # a clause may carry several properties: "C09,C14:no-earlier-bin-fits"

# contract target -> function keys used by the T3 stand-ins (falsifier link: a failing inductive obligation looks there for a concrete input)
ALIASES = {
    "prtpy/partitioning/greedy.py::greedy": ["greedy"],
    "prtpy/partitioning/roundrobin.py::roundrobin": ["roundrobin"],
    "prtpy/partitioning/multifit.py::multifit": ["multifit"],
    "prtpy/packing/first_fit.py::online": ["ff", "ffd"],
    "prtpy/packing/first_fit.py::decreasing": ["ffd"],
    "prtpy/packing/best_fit.py::online": ["bf", "bfd"],
    "prtpy/packing/best_fit.py::decreasing": ["bfd"],
    "prtpy/packing/greedy_covering.py::decreasing_subroutine": ["decreasing", "threequarters"],
    "prtpy/packing/greedy_covering.py::decreasing": ["decreasing"],
    "prtpy/packing/cflz_covering.py::twothirds": ["twothirds"],
    "prtpy/packing/cflz_covering.py::threequarters": ["threequarters"],
}

PART_HEUR = [("contracts.partition_heur", "greedy"), ("contracts.partition_heur", "roundrobin")]
MULTIFIT = [("contracts.partition_heur", "multifit")]
FIT = [("contracts.packing_fit", "first_fit_online"), ("contracts.packing_fit", "best_fit_online"), ("contracts.packing_fit", "ffd"), ("contracts.packing_fit", "bfd")]
BINNERS = None


def binners():
    from contracts import binners as B
    return list(B.ALL)


def exact():
    from contracts import exact as E
    return list(E.EXACT_CONTRACTS)


def cg16(level):
    from contracts import exact as E
    if level == "thorough":
        return list(E.CG16_CONTRACTS)
    return [("contracts.exact", n) for n in ("cg16_difference_0000", "cg16_difference_1111", "cg16_minmax_0110", "cg16_maxmin_0100", "cg16_minmax_1010")]


def heur():
    from contracts import exact as E
    return list(E.HEUR_CONTRACTS)


def c11():
    from contracts import exact as E
    return list(E.C11_CONTRACTS)


def bounds():
    from contracts import objectives as O
    return list(O.BOUND_CONTRACTS)


CBLDM = [("contracts.exact", "cbldm")]


def adaptors():
    from contracts import adaptors as A
    return list(A.ALL)


def relational():
    from contracts import relational as R
    return list(R.ALL)


TQ = [("contracts.threequarters", "threequarters")]
COVER = [("contracts.covering", "decreasing_subroutine"), ("contracts.covering", "cover_decreasing"), ("contracts.covering", "twothirds"), ("contracts.covering", "threequarters_t1")]


def _real_outcome(contract, w):
    try:
        return contract.real(w)
    except Exception as e:
        return {"raises": type(e).__name__}


def replay_and_crosscheck(rep, prop, res, obs):
    """T2: (a) every counter-model is executed on the real function: the real result must equal the engine's prediction, then the
    violation is genuine (the goal is false for that result); (b) on every explored path a model of the path condition is executed on the
    real function and compared with the engine's prediction (soundness cross-check of the Python/numpy model, DESIGN 10)."""
    from pyvc.concrete import same, unjson
    from pyvc.report import Ob
    c = res.contract
    if c.tier != "T2" or not hasattr(c, "real"):
        return
    for ob in obs:
        if ob.status == REFUTED and isinstance(ob.witness, dict) and ob.witness.get("input"):
            w = ob.witness["input"]
            real = _real_outcome(c, w)
            pred = unjson(w.get("predicted"))
            ob.witness["real_result"] = repr(real)
            confirm = getattr(c, "confirm", None)
            if w.get("approximate") and confirm is None:
                # the path used an over-approximating model (e.g. rounding of a narrow float type): the engine's result is not a prediction, so the
                # counter-model cannot be confirmed by comparison; the failed obligation stands, without a replayed input
                ob.detail = f"counter-model {w} (this path depends on an over-approximating model - rounding of a narrow float type, hidden bookkeeping state, or the truth value / type of an item name - so it is not replayable by comparison on plain numbers) | " + ob.detail
                continue
            if (confirm(unjson(w), real) if confirm is not None else same(pred, real)):
                ob.replayed = True
                ob.detail = f"counter-model replayed on the real function: input {w}, real result {real!r} (= predicted) | " + ob.detail
            else:
                ob.status = UNDECIDED
                ob.detail = f"engine imprecision: counter-model {w} predicts {pred!r} but the real function returns {real!r} | " + ob.detail
    bad = 0
    for w in res.xchecks:
        real = _real_outcome(c, w)
        eq = getattr(c, "crosscheck_equal", None)
        if not (eq(unjson(w), real) if eq is not None else same(unjson(w.get("predicted")), real)):
            bad += 1
            rep.add(Ob(id=f"{prop}/T2/{c.fname}/engine-crosscheck", tier="T2", status=UNDECIDED, function=c.target,
                       detail=f"ENGINE MODEL DISAGREES WITH CPYTHON on {w}: real result {real!r}"))
            rep.extra["engine_mismatch"] = rep.extra.get("engine_mismatch", 0) + 1
            break
    rep.extra["traces_validated_against_impl"] = rep.extra.get("traces_validated_against_impl", 0) + len(res.xchecks) - bad


def run_contracts(rep, prop, crefs, level="quick", with_lemmas=False, also=(), only_tagged=False):
    """verify every contract and add the obligations that carry `prop`:
       every invariant / precondition / exception obligation of the function (the proof of any postcondition rests on them) and the
       postconditions and step assertions tagged with this property (or untagged).  A failing obligation tagged with ANOTHER property
       means the proof this property rests on is broken, not that this property is violated: it is reported as undecided here."""
    for cref in crefs:
        res = vc.verify(cref, level)
        obs = vc.to_obs(res, prop)
        replay_and_crosscheck(rep, prop, res, obs)
        for ob in obs:
            m = _TAG.search(ob.id)
            tags = set(m.group(1).split(",")) if m is not None else set()
            foreign = m is not None and prop not in tags and not (tags & set(also))
            if foreign and ("/post/" in ob.id or "/call:" in ob.id or "/raise/" in ob.id or "/C07:" in ob.id):
                continue
            if only_tagged and (m is None or foreign) and ob.status != UNDECIDED:
                continue
            if foreign and ob.status == REFUTED:
                ob.status = UNDECIDED
                ob.detail = f"an invariant clause belonging to {m.group(1)} failed, so the proof this property rests on is incomplete: " + ob.detail
                ob.witness = None
            rep.add(ob)
        rep.trust(*[f"library contract: {t}" for t in res.trusted])
        rep.extra.setdefault("paths_explored", 0)
        rep.extra["paths_explored"] += res.paths
        rep.extra["vc_instances_discharged"] = rep.extra.get("vc_instances_discharged", 0) + sum(e["instances"] for e in res.by_id.values() if e["status"] == "proved")
        rep.extra.setdefault("functions_under_contract_list", [])
        if res.contract.target not in rep.extra["functions_under_contract_list"]:
            rep.extra["functions_under_contract_list"].append(res.contract.target)
        rep.extra.setdefault("contracts", []).append({
            "function": res.contract.target, "contract": f"{cref[0]}.{cref[1]}", "tier": res.contract.tier,
            "shapes": res.shapes[:6] + (["... %d shapes in all" % len(res.shapes)] if len(res.shapes) > 6 else []),
            "named_obligations": len(res.by_id), "proved": sum(1 for e in res.by_id.values() if e["status"] == "proved"),
            "failed": sum(1 for e in res.by_id.values() if e["status"] == "refuted"), "undecided": sum(1 for e in res.by_id.values() if e["status"] == "undecided"),
            "paths": res.paths, "path_outcomes": res.outcomes, "vc_instances": sum(e["instances"] for e in res.by_id.values()),
            "solver": "z3-" + __import__("z3").get_version_string(), "solver_seconds": round(res.solver_time, 2), "solver_queries": res.queries,
            "crosschecked_against_cpython": len(res.xchecks), "budget_exhausted": bool(getattr(res, "budget_exhausted", False))})
        rep.extra.setdefault("solver_queries", 0)
        rep.extra["solver_queries"] += res.queries
    if with_lemmas:
        rep.extend(lemmas.obligations(prop))


def link_falsifier(rep):
    """a failing deductive obligation without a concrete input borrows the witness of a failing T3 contract on the same function"""
    t3_fail = [o for o in rep.obs if o.tier == "T3" and o.status == REFUTED and isinstance(o.witness, dict)]
    for ob in rep.obs:
        if ob.tier in ("T1", "T2") and ob.status == REFUTED and not ob.replayed:
            keys = ALIASES.get(ob.function, [])
            for t in t3_fail:
                inp = t.witness.get("input") or {}
                if isinstance(inp, dict) and inp.get("algo") in keys or any(t.function.endswith("::" + k) for k in keys):
                    ob.witness = dict(ob.witness or {}, concrete_input=inp, found_by=t.id)
                    ob.replayed = True
                    break


def run_static(rep, prop, rules, only_files=None):
    """frame / purity / clock judgements of pyvc/static.py as obligations of tier 'static' (all paths, all sizes)"""
    from pyvc import static
    from pyvc.report import REPO
    obs, unknown = static.obligations(prop, REPO, rules)
    for o in obs:
        if only_files is not None and not any(f in o.function for f in only_files):
            continue
        rep.add(o)
    rep.trust("static discipline checker: callees outside the analysed modules are assumed not to write their arguments (" + ", ".join(unknown[:25]) + ", ...)")
    if only_files is None:
        run_bindings(rep, prop)


# ------------------------------------------------------------------------------------------------ public names
# The contracts are attached to functions by file and name; users (and the T3 stand-ins) reach them through the aliases of prtpy/__init__.py.
# For every alias whose target is under contract: the alias is bound to that function.  A different binding does not refute anything by itself
# (another function may satisfy the same property): the proof then says nothing about what users call, which is reported as UNDECIDED, and the
# T3 stand-in - which goes through the public names - decides.
PUBLIC = {
    "partitioning": {"cg": "complete_greedy::anytime", "complete_greedy": "complete_greedy::anytime", "dp": "dynamic_programming::optimal",
                     "dynamic_programming": "dynamic_programming::optimal", "ilp": "integer_programming::optimal", "integer_programming": "integer_programming::optimal",
                     "greedy": "greedy::greedy", "lpt": "greedy::greedy", "longest_processing_time": "greedy::greedy", "roundrobin": "roundrobin::roundrobin",
                     "multifit": "multifit::multifit", "kk": "karmarkar_karp_sy::kk", "karmarkar_karp": "karmarkar_karp_sy::kk",
                     "ckk": "complete_karmarkar_karp_sy::optimal", "complete_karmarkar_karp": "complete_karmarkar_karp_sy::optimal",
                     "snp": "sequential_number_partitioning_sy::snp", "sequential_number_partitioning": "sequential_number_partitioning_sy::snp",
                     "rnp": "recursive_number_partitioning_sy::rnp", "recursive_number_partitioning": "recursive_number_partitioning_sy::rnp", "cbldm": "cbldm::cbldm"},
    "packing": {"first_fit": "first_fit::online", "ff": "first_fit::online", "first_fit_decreasing": "first_fit::decreasing", "ffd": "first_fit::decreasing",
                "bin_completion": "bin_completion::bin_completion"},
    "covering": {"decreasing": "greedy_covering::decreasing", "twothirds": "cflz_covering::twothirds", "threequarters": "cflz_covering::threequarters"},
}


def run_bindings(rep, prop):
    import ast, os
    from pyvc.report import REPO
    path = os.path.join(REPO, "prtpy", "__init__.py")
    found = {}
    try:
        tree = ast.parse(open(path).read())
    except (OSError, SyntaxError) as e:
        rep.add(Ob(id=f"{prop}/static/prtpy/__init__.py/public-names", tier="static", status=UNDECIDED, function="prtpy/__init__.py", detail=f"cannot read the public names: {e}"))
        return
    for node in tree.body:
        if isinstance(node, ast.ClassDef) and node.name in PUBLIC:
            for st in node.body:
                if isinstance(st, ast.ImportFrom) and st.module:
                    for a in st.names:
                        found[(node.name, a.asname or a.name)] = (st.module.split(".")[-1] + "::" + a.name, st.lineno)
                elif isinstance(st, ast.Assign):
                    for t in st.targets:
                        if isinstance(t, ast.Name):
                            found[(node.name, t.id)] = ("<assignment>", st.lineno)
    # a later re-binding at module level (prtpy.covering.x = ...) also counts
    for node in ast.walk(tree):
        if isinstance(node, ast.Assign):
            for t in node.targets:
                if isinstance(t, ast.Attribute) and isinstance(t.value, ast.Name) and t.value.id in PUBLIC and t.attr in PUBLIC[t.value.id]:
                    found[(t.value.id, t.attr)] = ("<assignment>", node.lineno)
    ok, bad = 0, []
    for cls, names in PUBLIC.items():
        for name, target in names.items():
            got = found.get((cls, name))
            if got is not None and got[0] == target:
                ok += 1
            else:
                bad.append((cls, name, target, got))
    rep.add(Ob(id=f"{prop}/static/prtpy/__init__.py/public-names-are-bound-to-the-functions-under-contract", tier="static",
               status=PROVED if not bad else UNDECIDED, function="prtpy/__init__.py", solver="static",
               detail=(f"{ok} public aliases (prtpy.partitioning.*, prtpy.packing.*, prtpy.covering.*) resolve to the functions the contracts are attached to" if not bad else
                       "; ".join(f"prtpy.{c}.{n} is bound to {g[0] + ' (line ' + str(g[1]) + ')' if g else 'nothing'}, the contracts speak about {t}" for c, n, t, g in bad[:4])
                       + " - the deductive obligations do not cover what users call under that name; the bounded stand-in (which uses the public names) decides")))
