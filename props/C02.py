"""C02 - exact partitioners attain the true optimum of their objective."""
import random
from runtime import harness as H
from props import _ded as D
from runtime import t3_part as T
from runtime.common import CG_SWITCHES

K2_WITNESSES = [[48, 63, 37, 29, 26, 77, 64, 31]]
# regression inputs recorded when the defects F9 / F10 were exhibited (rnp, 4 bins)
RNP4_REGRESSION = [[68, 22, 72, 23, 31, 30, 4], [28, 24, 55, 18, 76, 23, 8], [9, 46, 57, 47, 2, 10, 61], [35, 13, 32, 4, 17, 19, 10]]


def t3(rep, tier, seed):
    rng = random.Random(seed)
    N, V, K = (5, 4, 4) if tier == "quick" else (6, 6, 5)
    ms = list(H.multisets(N, V))
    rnd = [[rng.randint(0, 60) for _ in range(rng.randint(4, 8))] for _ in range(30 if tier == "quick" else 400)]
    rnd += [[rng.randint(0, 2 ** 30) for _ in range(rng.randint(4, 7))] for _ in range(10 if tier == "quick" else 100)]
    bound = f"all multisets of n<={N} values in 0..{V} x numbins 1..{K} + {len(rnd)} seeded random lists (n<=8); oracle = minimum over all numbins^n assignments"
    objs = [("difference", None), ("min-max", None), ("max-min", None), ("k-smallest", 1), ("k-smallest", 2), ("k-largest", 2), ("k-largest", 7)]
    # dp: processes the items in the given order -> also reversed order
    dom = [{"algo": "dp", "values": v, "k": k, "obj": o, "kparam": kp} for v in ms for k in range(1, K + 1) for (o, kp) in objs]
    dom += [{"algo": "dp", "values": v[::-1], "k": k, "obj": o, "kparam": kp} for v in ms if len(v) >= 3 for k in (2, 3) for (o, kp) in objs[:3]]
    dom += [{"algo": "dp", "values": v, "k": k, "obj": o, "kparam": kp} for v in rnd if len(v) <= 6 for k in (2, 3) for (o, kp) in objs]
    rep.add(H.run_case("C02/T3/dp/optimal", "prtpy/partitioning/dynamic_programming.py::optimal", T.c02_case, dom, bound + "; 5 objectives"))
    ilpms = [m for m in ms if len(m) <= (4 if tier == "quick" else 5)]
    dom = [{"algo": "ilp", "values": v, "k": k, "obj": o, "kparam": kp} for v in ilpms for k in range(1, min(K, 4) + 1) for (o, kp) in objs[:6]]
    dom += [{"algo": "ilp", "values": [min(x, 200) for x in v], "k": k, "obj": o, "kparam": kp} for v in rnd[:20 if tier == "quick" else 150] for k in (2, 3) for (o, kp) in objs[:6]]
    rep.add(H.run_case("C02/T3/ilp/optimal", "prtpy/partitioning/integer_programming.py::optimal", T.c02_case, dom, bound + "; values<=200; 5 objectives", chunk=32))
    for objname in ("difference", "min-max", "max-min"):
        cgms = ms if tier == "thorough" else [m for m in ms if len(m) <= 4] + [m for m in ms if len(m) == 5][::2]
        dom = [{"algo": "cg", "values": v, "k": k, "obj": objname, "cg": list(sw)} for sw in CG_SWITCHES for v in cgms for k in range(1, K + 1)]
        dom += [{"algo": "cg", "values": v, "k": k, "obj": objname, "cg": list(sw)} for sw in CG_SWITCHES for v in rnd if len(v) <= 7 for k in (2, 3)]
        from props._domains import large_value_variants
        big = large_value_variants([m for m in ms if 3 <= len(m) <= 5][::5])          # sums ~1e7 differing by a few units (tolerance slips)
        dom += [{"algo": "cg", "values": v, "k": k, "obj": objname, "cg": list(sw)} for sw in (CG_SWITCHES[0], CG_SWITCHES[-1]) for v in big for k in (2, 3)]
        rep.add(H.run_case(f"C02/T3/cg[{objname}]/optimal", "prtpy/partitioning/complete_greedy.py::anytime", T.c02_case, dom, bound + "; 16 switch combinations", chunk=256))
    for algo in ("ckk", "snp"):
        dom = [{"algo": algo, "values": v, "k": k} for v in ms for k in range(1, K + 1)]
        dom += [{"algo": algo, "values": v, "k": k} for v in rnd for k in (2, 3, 4)]
        rep.add(H.run_case(f"C02/T3/{algo}/optimal", f"prtpy.partitioning::{algo}", T.c02_case, dom, bound + "; objective = difference"))
    dom = [{"algo": "rnp", "values": v, "k": k} for v in ms for k in range(1, 5)]
    dom += [{"algo": "rnp", "values": v, "k": k} for v in rnd for k in (2, 3, 4)]
    dom += [{"algo": "rnp", "values": v, "k": 4} for v in RNP4_REGRESSION]
    dom += [{"algo": "rnp", "values": [rng.randint(1, 80) for _ in range(rng.randint(6, 8))], "k": k} for _ in range(300 if tier == "quick" else 3000) for k in (3, 4)]
    rep.add(H.run_case("C02/T3/rnp/optimal[k<=4]", "prtpy/partitioning/recursive_number_partitioning_sy.py::rnp", T.c02_case, dom, bound + "; numbins<=4"))
    # rnp with 5 bins: deterministic domain + the recorded witnesses of known finding K2
    dom = [{"algo": "rnp", "values": v, "k": 5} for v in ms] + [{"algo": "rnp", "values": v, "k": 5} for v in K2_WITNESSES]
    rep.add(H.run_case("C02/T3/rnp/optimal[k=5]", "prtpy/partitioning/recursive_number_partitioning_sy.py::rnp", T.c02_case, dom,
                       f"all multisets of n<={N} values in 0..{V}, numbins=5, + recorded witnesses"))


def run(rep, tier, seed):
    rep.level = "exploration"
    rep.assume("A1", "A4", "A6", "A8")
    D.run_contracts(rep, "C02", D.exact() + D.cg16(tier), tier)
    D.run_contracts(rep, "C02", D.bounds(), tier, also=("C13",))
    D.run_contracts(rep, "C02", [("contracts.ilp", "ilp")], "lite" if tier == "quick" else tier, also=("C17",), only_tagged=True)      # ILP optimal under the assumed solver contract
    from contracts import enumerators as EN
    D.run_contracts(rep, "C02", EN.ALL, tier, also=("C13",))      # the enumerators CKK / SNP / RNP rest on
    D.run_static(rep, "C02", ("purity",))      # every per-call contract presupposes that results are functions of the arguments
    t3(rep, tier, seed)
    D.link_falsifier(rep)
