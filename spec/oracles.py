"""Spec functions (DESIGN Appendix D).  Pure Python, never import prtpy.
Each is the literal definition of the quantity the property statement talks about,
evaluated by exhaustive enumeration; they are the oracles of the T3 run-time contracts."""
from functools import lru_cache
from fractions import Fraction
from itertools import combinations
import math


# ---------------------------------------------------------------- objectives (C20, from the statement)
def objective_value(name, sums, k=None, weights=None):
    s = [Fraction(x) if not isinstance(x, int) else x for x in sums]
    if name == "max-min":
        return -min(s)
    if name == "min-max":
        return max(s)
    if name == "difference":
        return max(s) - min(s)
    if name == "k-smallest":
        return -sum(sorted(s)[:min(k, len(s))])
    if name == "k-largest":
        srt = sorted(s)
        return sum(srt[len(s) - min(k, len(s)):])
    if name == "weighted":
        return -min(Fraction(x) / Fraction(w) for x, w in zip(s, weights))
    raise KeyError(name)


def all_sum_vectors(values, k):
    """Every vector of bin sums reachable by assigning each value to one of k bins, up to bin symmetry
    (sorted tuples)."""
    states = {tuple([0] * k)}
    for v in values:
        nxt = set()
        for st in states:
            seen = set()
            for j in range(k):
                if st[j] in seen:
                    continue
                seen.add(st[j])
                l = list(st); l[j] += v
                nxt.add(tuple(sorted(l)))
        states = nxt
    return states


def opt_part(values, k, name, kparam=None):
    """Minimum of the objective over all k^n assignments."""
    return min(objective_value(name, st, kparam) for st in all_sum_vectors(list(values), k))


def opt_2way(values, d=None):
    """min |sum A - sum comp(A)| over subsets with | |A| - |comp A| | <= d (d None = unbounded)."""
    n = len(values); tot = sum(values); best = None
    # states: (count, sum)
    st = {(0, 0)}
    for v in values:
        st = st | {(c + 1, s + v) for (c, s) in st}
    for (c, s) in st:
        if d is not None and abs(c - (n - c)) > d:
            continue
        diff = abs(s - (tot - s))
        if best is None or diff < best:
            best = diff
    return best


def opt_bins(values, B):
    """Least number of bins of capacity B holding all values (each 0<=v<=B). Exhaustive B&B with symmetry breaking."""
    vals = sorted((v for v in values if v > 0), reverse=True)
    if not vals:
        return 0 if not values else 1
    n = len(vals)
    best = [n]
    lb = math.ceil(Fraction(sum(vals)) / Fraction(B))

    def rec(i, bins):
        if len(bins) >= best[0]:
            return
        if i == n:
            best[0] = len(bins)
            return
        v = vals[i]
        tried = set()
        for j in range(len(bins)):
            if bins[j] + v <= B and bins[j] not in tried:
                tried.add(bins[j])
                bins[j] += v
                rec(i + 1, bins)
                bins[j] -= v
                if best[0] == lb:
                    return
        bins.append(v)
        rec(i + 1, bins)
        bins.pop()

    rec(0, [])
    return best[0]


def opt_cover(values, B):
    """Largest number of disjoint sub-collections each totalling >= B (subset DP over bitmasks, n <= 16)."""
    vals = list(values); n = len(vals)
    if B <= 0:
        raise ValueError
    full = (1 << n) - 1
    tot = [0] * (1 << n)
    for m in range(1, 1 << n):
        low = m & -m
        tot[m] = tot[m ^ low] + vals[low.bit_length() - 1]
    # minimal covering subsets containing the lowest free index -> recursion
    @lru_cache(maxsize=None)
    def best(free):
        if tot[free] < B:
            return 0
        # choose lowest free item: either unused, or in a bin
        low = free & -free
        rest = free ^ low
        res = best(rest)  # lowest item left unused
        # enumerate subsets of rest that together with low reach >= B, minimal ones suffice
        sub = rest
        # iterate over all subsets of rest (n<=14 keeps this affordable thanks to memo)
        s = sub
        while True:
            m = s | low
            if tot[m] >= B:
                # minimality: removing any element of s drops below B (prune non-minimal)
                minimal = True
                t = s
                while t:
                    b = t & -t
                    if tot[m ^ b] >= B:
                        minimal = False; break
                    t ^= b
                if minimal:
                    r = 1 + best(free ^ m)
                    if r > res:
                        res = r
            if s == 0:
                break
            s = (s - 1) & sub
        return res
    return best(full)


# ---------------------------------------------------------------- reference transcriptions (C14)
def ref_lpt(values, k):
    bins = [[] for _ in range(k)]
    for v in sorted(values, reverse=True):
        j = min(range(k), key=lambda j: sum(bins[j]))
        bins[j].append(v)
    return bins


def ref_roundrobin(values, k):
    bins = [[] for _ in range(k)]
    for t, v in enumerate(sorted(values, reverse=True)):
        bins[t % k].append(v)
    return bins


def ref_first_fit(values, B):
    bins = []
    for v in values:
        for b in bins:
            if sum(b) + v <= B:
                b.append(v); break
        else:
            bins.append([v])
    return bins


def ref_best_fit(values, B):
    bins = []
    for v in values:
        fitting = [b for b in bins if sum(b) + v <= B]
        if fitting:
            fullest = max(sum(b) for b in fitting)
            next(b for b in fitting if sum(b) == fullest).append(v)
        else:
            bins.append([v])
    return bins


def ref_ffd(values, B):
    return ref_first_fit(sorted(values, reverse=True), B)


def ref_bfd(values, B):
    return ref_best_fit(sorted(values, reverse=True), B)


def ref_cover_decreasing(values, B):
    """next-fit-decreasing cover: fill the open bin with the largest remaining item until it reaches B."""
    bins, cur = [], []
    for v in sorted(values, reverse=True):
        cur.append(v)
        if sum(cur) >= B:
            bins.append(cur); cur = []
    return bins


def ref_cover_twothirds(values, B):
    """CFLZ simple 2/3: open with the largest remaining item, fill with smallest remaining items until >= B."""
    r = sorted(values, reverse=True); bins = []
    while r:
        cur = [r.pop(0)]
        while r and sum(cur) < B:
            cur.append(r.pop())
        if sum(cur) >= B:
            bins.append(cur)
    return bins


def ref_cover_threequarters(values, B):
    """CFLZ improved 3/4: X = {v >= B/2}, Y = {B/3 <= v < B/2}, Z = {v < B/3}.  While Z and (X or Y) are non-empty: open
    a bin with the largest X item if it is at least the total of the two largest Y items, else with those (at most two)
    largest Y items; fill with smallest Z items until >= B.  When Z is exhausted: next-fit-decreasing on X then Y
    continuing in the open bin; when X and Y are exhausted: next-fit-decreasing on Z continuing in the open bin."""
    r = sorted(values, reverse=True)
    X = [v for v in r if 2 * v >= B]
    Y = [v for v in r if 3 * v >= B and 2 * v < B]
    Z = [v for v in r if 3 * v < B]
    bins, cur = [], []

    def nfd(seq):
        nonlocal cur
        for v in seq:
            cur.append(v)
            if sum(cur) >= B:
                bins.append(cur); cur = []
    while True:
        if not Z:
            nfd(X); nfd(Y); break
        if not X and not Y:
            nfd(Z); break
        if sum(X[:1]) >= sum(Y[:2]):
            cur.append(X.pop(0))
        else:
            for _ in range(min(2, len(Y))):
                cur.append(Y.pop(0))
        while Z and sum(cur) < B:
            cur.append(Z.pop())
        if sum(cur) >= B:
            bins.append(cur); cur = []
    return bins
