#!/bin/bash
# usage: tools/seed_run.sh <seed-id> [tier] [PROP]  -- runs the check of the property a seeded change breaks against a scratch copy of /repo
# with the change applied (outside /repo and /verif, removed afterwards); prints the exit code and the VIOLATION lines.
S=$1; TIER=${2:-quick}; D=/verif/seeded/$S; PROP=${3:-$(jq -r .breaks_property $D/meta.json)}
W=$(mktemp -d /tmp/sr.XXXXXX); cp -r /repo/prtpy $W/prtpy; (cd $W && patch -p1 -s < $D/patch.diff) || { echo "$S: patch failed"; rm -rf $W; exit 9; }
cd /verif
PRTPY_REPO=$W VERIF_EVIDENCE_DIR=$W/evidence VERIF_OUT_DIR=$W/out ./check $PROP --tier $TIER > $W/log 2>&1; rc=$?
echo "== $S [$PROP $TIER] exit=$rc  $(grep -c '^VIOLATION' $W/log) violation line(s)"
grep -A1 '^VIOLATION' $W/log | grep -v '^--' | cut -c1-260 | head -${SEED_LINES:-6}
tail -1 $W/log | cut -c1-250
rm -rf $W
