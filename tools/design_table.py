#!/usr/bin/env python3
"""rewrites the numeric columns of the table in DESIGN.md section 4 from evidence/*.json (run after the 20 quick checks)"""
import json, os, re
ROOT = os.path.dirname(os.path.dirname(os.path.abspath(__file__)))
p = os.path.join(ROOT, "DESIGN.md")
s = open(p).read()
for i in range(1, 21):
    pid = f"C{i:02d}"
    c = json.load(open(os.path.join(ROOT, "evidence", pid + ".json")))["coverage"]
    pt = c["per_tier"]
    n = {t: pt.get(t, {}).get("obligations", 0) for t in ("T1", "T2", "static")}
    ded = sum(n.values())
    vcs = c.get("vc_instances_discharged", 0)
    vtxt = "—" if not vcs else (f"{vcs / 1000:.1f}k" if vcs >= 1000 else str(vcs))
    t3 = pt.get("T3", {})
    known = t3.get("known_findings", 0)
    t3txt = f"{t3.get('obligations', 0)}" + (f" (+K)" if known else "")
    m = re.search(rf"^\| {pid} \| ([^|]*) \| [^|]* \| [^|]* \| ([^|]*) \| (.*)$", s, re.M)
    if not m:
        print("row not found", pid); continue
    t3old = m.group(2).strip()
    kf = re.search(r"\(\+K\d\)", t3old)
    t3txt = f"{t3.get('obligations', 0)}" + (f" {kf.group(0)}" if kf else "")
    new = f"| {pid} | {m.group(1)} | {ded} ({n['T1']}/{n['T2']}/{n['static']}) | {vtxt} | {t3txt} | {m.group(3)}"
    s = s[:m.start()] + new + s[m.end():]
open(p, "w").write(s)
print("DESIGN.md section 4 refreshed")
