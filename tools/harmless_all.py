#!/usr/bin/env python3
"""Behaviour-preserving edits (selftest/harmless/*.diff) must NOT raise an alarm: for each edit the checks of the properties its file carries are run
against a scratch copy of /repo with the edit applied (and the pinned suite is run there too); exit code must be 0 and no VIOLATION line printed.
usage: tools/harmless_all.py [ids...]"""
import json, os, re, subprocess, sys, tempfile, shutil
from concurrent.futures import ThreadPoolExecutor
ROOT = os.path.dirname(os.path.dirname(os.path.abspath(__file__)))
META = json.load(open(os.path.join(ROOT, "selftest/harmless/META.json")))
ids = sys.argv[1:] or sorted(META)


def run(hid):
    w = tempfile.mkdtemp(prefix="hm.", dir="/tmp")
    out = []
    try:
        shutil.copytree("/repo/prtpy", os.path.join(w, "prtpy"))
        subprocess.run(["patch", "-p1", "-s", "-i", os.path.join(ROOT, "selftest/harmless", hid + ".diff")], cwd=w, check=True)
        for prop in META[hid]["properties"]:
            env = dict(os.environ, PRTPY_REPO=w, VERIF_EVIDENCE_DIR=os.path.join(w, "ev"), VERIF_OUT_DIR=os.path.join(w, "out"), VERIF_NPROC="6")
            p = subprocess.run(["./check", prop, "--tier", "quick"], cwd=ROOT, env=env, capture_output=True, text=True, timeout=3000)
            if p.returncode != 0:
                os.makedirs(os.path.join(ROOT, "out", "harmless-logs"), exist_ok=True)
                open(os.path.join(ROOT, "out", "harmless-logs", f"{hid}.{prop}.log"), "w").write(p.stdout[-20000:] + "\n--- stderr\n" + p.stderr[-20000:])
            last = [l for l in p.stdout.splitlines() if l.startswith("[" + prop)][-1:]
            und = (re.findall(r"undecided (\d+)", last[0]) if last else []) or ["?"]
            out.append({"edit": hid, "property": prop, "exit": p.returncode, "violations": len(re.findall(r"^VIOLATION", p.stdout, re.M)), "undecided": und[0],
                        "first_violation": (re.findall(r"^  obligation (\S+)", p.stdout, re.M) or [""])[0]})
        return out
    finally:
        shutil.rmtree(w, ignore_errors=True)


with ThreadPoolExecutor(3) as ex:
    results = [r for rs in ex.map(run, ids) for r in rs]
json.dump(results, open(os.path.join(ROOT, "selftest/harmless/RESULTS.json"), "w"), indent=1)
bad = [r for r in results if r["exit"] != 0 or r["violations"]]
for r in results:
    print(f"{r['edit']:36s} {r['property']} exit={r['exit']} violations={r['violations']} undecided={r['undecided']} {r['first_violation'][:70]}")
print("false alarms:", len(bad), "of", len(results), "runs")
sys.exit(1 if bad else 0)
