#!/bin/bash
# usage: tools/seed_import.sh <ID> <k>   -- re-verifies agent output /tmp/wt/<ID>/_out/m<k>.* in a scratch worktree and stores it under seeded/
# confirms: (1) patch applies, (2) the pinned suite still has 42/42 stable tests passing, (3) demo fails with the patch, (4) demo passes without it
ID=$1; K=$2; DK=${3:-$2}; SRC=/tmp/wt/$ID/_out; WT=/tmp/sv/${ID}_m$K; DST=/verif/seeded/$ID-m$DK
[ -f $SRC/m$K.patch ] || { echo "$ID m$K: no patch"; exit 1; }
mkdir -p /tmp/sv; rm -rf $WT; git -C /repo worktree add --detach $WT HEAD >/dev/null 2>&1 || exit 1
cd $WT
res="ok"
git apply $SRC/m$K.patch || res="patch-does-not-apply"
if [ $res = ok ]; then
  mkdir -p _out && cp $SRC/m${K}_demo.py _out/
  /venv/bin/python /tmp/wt/baseline.py $WT > /tmp/sv/${ID}_m$K.base 2>&1 || res="suite-fails"
  timeout 120 /venv/bin/python _out/m${K}_demo.py > /tmp/sv/${ID}_m$K.with 2>&1 && res="${res}+demo-passes-with-patch"
  git checkout -- . ; 
  timeout 120 /venv/bin/python _out/m${K}_demo.py > /tmp/sv/${ID}_m$K.without 2>&1 || res="${res}+demo-fails-without-patch"
fi
cd /; git -C /repo worktree remove --force $WT
echo "$ID m$K: $res"
if [ "$res" = ok ]; then
  mkdir -p $DST; cp $SRC/m$K.patch $DST/patch.diff; cp $SRC/m${K}_demo.py $DST/demo.py; cp $SRC/m$K.txt $DST/notes.txt
  /venv/bin/python - "$ID" "$K" "$DST" <<'PY'
import json, sys, os
ID, K, DST = sys.argv[1:4]
notes = open(f"{DST}/notes.txt").read()
files = sorted({l.split(" b/")[1].strip() for l in open(f"{DST}/patch.diff") if l.startswith("diff --git")})
json.dump({"id": os.path.basename(DST), "breaks_property": ID, "files": files, "needs_to_manifest": notes.strip(),
           "origin": "fresh sub-agent given only the property text and a scratch worktree (no access to /verif)",
           "confirmed": {"patch_applies_to": "HEAD of /repo at import time", "pinned_suite_with_patch": "42/42 stable tests pass (/tmp/wt/baseline.py = BASELINE.json command + stable_pass set)",
                         "demo_with_patch": "exits non-zero", "demo_without_patch": "exits 0",
                         "how": "tools/seed_import.sh in a scratch git worktree outside /repo and /verif, removed afterwards"},
           "detected_by": None}, open(f"{DST}/meta.json", "w"), indent=1)
PY
fi
