#!/usr/bin/env python3
"""Runs the check of the broken property against every seeded change (scratch copies, in parallel) and records which obligations catch it:
   seeded/RESULTS.json and the 'detected_by' field of every seeded/<id>/meta.json.   usage: tools/seed_all.py [quick|thorough] [ids...]"""
import json, os, re, subprocess, sys, tempfile, shutil
from concurrent.futures import ThreadPoolExecutor
ROOT = os.path.dirname(os.path.dirname(os.path.abspath(__file__)))
tier = sys.argv[1] if len(sys.argv) > 1 else "quick"
ids = sys.argv[2:] or sorted(d for d in os.listdir(os.path.join(ROOT, "seeded")) if os.path.isdir(os.path.join(ROOT, "seeded", d)))


def run(sid):
    d = os.path.join(ROOT, "seeded", sid)
    meta = json.load(open(os.path.join(d, "meta.json")))
    prop = meta["breaks_property"]
    w = tempfile.mkdtemp(prefix="sr.", dir="/tmp")
    try:
        shutil.copytree("/repo/prtpy", os.path.join(w, "prtpy"))
        subprocess.run(["patch", "-p1", "-s", "-i", os.path.join(d, "patch.diff")], cwd=w, check=True)
        env = dict(os.environ, PRTPY_REPO=w, VERIF_EVIDENCE_DIR=os.path.join(w, "ev"), VERIF_OUT_DIR=os.path.join(w, "out"), VERIF_NPROC="6")
        try:
            p = subprocess.run(["./check", prop, "--tier", tier], cwd=ROOT, env=env, capture_output=True, text=True, timeout=3000)
            out, rc = p.stdout, p.returncode
        except subprocess.TimeoutExpired:
            out, rc = "", "timeout"
        obs = re.findall(r"^  obligation (\S+) \[(\w+)\]", out, re.M)
        nofail = len(re.findall(r"^VIOLATION .* no-failing-input-found", out, re.M))
        res = {"id": sid, "property": prop, "tier": tier, "exit": rc, "violation_lines": len(re.findall(r"^VIOLATION", out, re.M)),
               "failed_obligations": [{"id": o, "tier": t} for o, t in obs], "without_concrete_input": nofail}
        meta["detected_by"] = {"tier_run": tier, "exit": rc, "obligations": [o for o, _ in obs][:8], "deductive": any(t in ("T1", "T2", "static") for _, t in obs),
                               "bounded_stand_in": any(t == "T3" for _, t in obs)} if rc == 1 else {"tier_run": tier, "exit": rc, "obligations": []}
        json.dump(meta, open(os.path.join(d, "meta.json"), "w"), indent=1)
        return res
    finally:
        shutil.rmtree(w, ignore_errors=True)


with ThreadPoolExecutor(3) as ex:
    results = list(ex.map(run, ids))
path = os.path.join(ROOT, "seeded", f"RESULTS.{tier}.json")
old = {r["id"]: r for r in json.load(open(path))} if os.path.exists(path) else {}
old.update({r["id"]: r for r in results})
json.dump(sorted(old.values(), key=lambda r: r["id"]), open(path, "w"), indent=1)
for r in results:
    tiers = sorted({o["tier"] for o in r["failed_obligations"]})
    print(f"{r['id']:8s} exit={r['exit']} caught_by={','.join(tiers) or '-'} {[o['id'].split('/', 2)[-1][:60] for o in r['failed_obligations']][:2]}")
print("caught:", sum(1 for r in results if r["exit"] == 1), "of", len(results))
