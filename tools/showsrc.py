#!/usr/bin/env python3
"""Print a repo source file with docstrings and __main__ blocks blanked (line numbers kept)."""
import ast, sys
for path in sys.argv[1:]:
    src = open(path).read()
    tree = ast.parse(src)
    drop = set()
    for node in ast.walk(tree):
        if isinstance(node, (ast.FunctionDef, ast.ClassDef, ast.Module)):
            b = node.body
            if b and isinstance(b[0], ast.Expr) and isinstance(b[0].value, ast.Constant) and isinstance(b[0].value.value, str):
                for l in range(b[0].lineno, b[0].end_lineno + 1): drop.add(l)
        if isinstance(node, ast.If) and isinstance(node.test, ast.Compare) and getattr(node.test.left, 'id', '') == '__name__':
            for l in range(node.lineno, node.end_lineno + 1): drop.add(l)
    print("=====", path)
    for i, line in enumerate(src.splitlines(), 1):
        if i in drop or not line.strip(): continue
        print(f"{i:4d} {line}")
