#!/usr/bin/env python3
"""Regenerate MANIFEST.json from the table below (kept next to the code so that the claimed level follows what is built)."""
import json, os, sys
ROOT = os.path.dirname(os.path.dirname(os.path.abspath(__file__)))
sys.path.insert(0, ROOT)
from props._levels import LEVELS, NOT_APPLICABLE

props = [json.loads(l) for l in open(os.path.join(ROOT, "properties.jsonl"))]
checks = []
for p in props:
    pid = p["id"]
    if pid not in LEVELS:
        continue
    L = LEVELS[pid]
    checks.append({
        "property_id": pid,
        "quick_cmd": f"./check {pid} --tier quick",
        "thorough_cmd": f"./check {pid} --tier thorough",
        "evidence_file": f"evidence/{pid}.json",
        "replay_cmd_template": f"./check {pid} --replay {{path}}",
        "engine": "pyvc",
        "level_claimed": {"category": L["category"], "text": L["text"], "design_ref": L.get("design_ref", "DESIGN.md section 5 " + pid)},
        "level_note": L["note"],
        "technique": L["technique"],
    })
m = {
    "version": 1,
    "setup_cmd": "./setup.sh",
    "hooks": {"guard": "PRTPY_VERIF",
              "enable": "none needed: no hook or instrumentation is compiled into /repo (source_commits is empty); the deductive engine only parses the source, the T3 stand-ins call the real functions and, for the anytime properties, replace the module attribute `time` of the algorithm module by a counting clock at run time",
              "baseline_off_cmd": "cd /repo && /venv/bin/python -m pytest -ra -q -p no:cacheprovider --timeout=900 --continue-on-collection-errors",
              "source_commits": [], "add_only": True},
    "engines": [{"name": "pyvc", "path": "pyvc/", "serves_properties": [c["property_id"] for c in checks],
                 "kind_free_text": "contract-based deductive verifier for a Python subset built here: re-reads /repo's source with ast on every run, symbolically executes the real statements against sidecar contracts in contracts/ (pre/postconditions, loop invariants, step assertions, abstract Binner contracts, callee contracts with frame clauses), discharges every verification condition with z3 5.1 (E-matching for the quantified T1 conditions; quantifier-free for T2); tiers T1 unbounded / T2 bounded shape, all values, counter-models replayed on the real code / static frame-purity-clock-interface-opacity judgements / T3 run-time deal contracts on a bounded domain (stand-in, never counted proved)"}],
    "checks": checks,
    "notes": "See DESIGN.md (as built; the round-0 plan is DESIGN_round0_plan.md). Exit codes: 0 held, 1 violation (VIOLATION line), 2 undecided, 3 checker failure. Genuine defects of the pinned tree were repaired by 'fix:' commits in /repo or are listed in known_findings.json. seeded/ holds 140 independently written breaking changes with demonstrations (seeded/RESULTS.md: which obligations catch which); selftest/harmless/ holds 34 behaviour-preserving edits that must not alarm (tools/harmless_all.py).",
    "not_applicable": [{"property_id": k, "reason": v} for k, v in NOT_APPLICABLE.items()],
}
json.dump(m, open(os.path.join(ROOT, "MANIFEST.json"), "w"), indent=1)
print("MANIFEST.json:", len(checks), "checks,", len(NOT_APPLICABLE), "not applicable")
