#!/usr/bin/env python3
"""Regenerate MANIFEST.json from the table below (kept next to the code so that the claimed level follows what is built)."""
import json, os, sys
ROOT = os.path.dirname(os.path.dirname(os.path.abspath(__file__)))
sys.path.insert(0, ROOT)
from props._levels import LEVELS, NOT_APPLICABLE

props = [json.loads(l) for l in open(os.path.join(ROOT, "properties.jsonl"))]
checks = []
for p in props:
    pid = p["id"]
    if pid not in LEVELS:
        continue
    L = LEVELS[pid]
    checks.append({
        "property_id": pid,
        "quick_cmd": f"./check {pid} --tier quick",
        "thorough_cmd": f"./check {pid} --tier thorough",
        "evidence_file": f"evidence/{pid}.json",
        "replay_cmd_template": f"./check {pid} --replay {{path}}",
        "engine": "pyvc",
        "level_claimed": {"category": L["category"], "text": L["text"], "design_ref": L.get("design_ref", "DESIGN.md section 5 " + pid)},
        "level_note": L["note"],
        "technique": L["technique"],
    })
m = {
    "version": 1,
    "setup_cmd": "./setup.sh",
    "hooks": {"guard": "PRTPY_VERIF",
              "enable": "none needed: no hook is compiled into /repo; checks observe the real code through module attributes (clock), recording Binner arguments and sys.settrace",
              "baseline_off_cmd": "cd /repo && /venv/bin/python -m pytest -ra -q -p no:cacheprovider --timeout=900 --continue-on-collection-errors",
              "source_commits": [], "add_only": True},
    "engines": [{"name": "pyvc", "path": "pyvc/", "serves_properties": [c["property_id"] for c in checks],
                 "kind_free_text": "contract-based deductive verifier for a Python subset built here: re-reads /repo's source with ast on every run, symbolically executes the real statements against sidecar contracts (pre/postconditions, loop invariants, Binner contracts), discharges the verification conditions with z3 (cvc5 fallback); tiers T1 unbounded / T2 bounded shape, all values / T3 run-time deal contracts on a bounded domain (stand-in, never counted proved)"}],
    "checks": checks,
    "notes": "See DESIGN.md. Exit codes: 0 held, 1 violation (VIOLATION line), 2 undecided, 3 checker failure. Genuine defects of the pinned tree were repaired by 'fix:' commits in /repo or are listed in known_findings.json.",
    "not_applicable": [{"property_id": k, "reason": v} for k, v in NOT_APPLICABLE.items()],
}
json.dump(m, open(os.path.join(ROOT, "MANIFEST.json"), "w"), indent=1)
print("MANIFEST.json:", len(checks), "checks,", len(NOT_APPLICABLE), "not applicable")
