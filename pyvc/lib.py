"""Data model operations and library contracts (trusted base A2): builtins, numpy, heapq, itertools, math, time, copy, logging.
Each library contract registers itself in interp.trusted when used, so that the evidence lists what was relied on."""
from __future__ import annotations
import ast, z3, itertools as _it
from fractions import Fraction
from . import logic as L
from .values import *
from .interp import Interp, GenResult, LazyGen, norm_num, LazyModule, LazyAttr


# ===================================================================== numbers
def _is_conc_num(x):
    return isinstance(x, (int, Fraction, float)) and not isinstance(x, bool) or isinstance(x, bool)


def _sym_num(x):
    return isinstance(x, SV)


def _real(t):
    return z3.ToReal(t) if L.is_int(t) else t


def py_floordiv_int(a, b):
    return z3.If(b > 0, a / b, (-a) / (-b))


def binop(it: Interp, op, a, b):
    # --- containers
    if isinstance(op, ast.Add):
        if isinstance(a, PList) and isinstance(b, PList):
            return PList(a.elems + b.elems)
        if isinstance(a, tuple) and isinstance(b, tuple):
            return a + b
        if isinstance(a, (str, SymStr)) and isinstance(b, (str, SymStr)):
            return SymStr()
        if isinstance(a, SSeq) or isinstance(b, SSeq):
            raise Unsupported("concatenation of symbolic-length sequences")
    if isinstance(op, ast.Mult):
        for x, y in ((a, b), (b, a)):
            if isinstance(x, int) and not isinstance(x, bool) and isinstance(y, tuple):
                return y * x
            if isinstance(x, int) and not isinstance(x, bool) and isinstance(y, PList):
                return PList(y.elems * x)
    if isinstance(a, NdArr) or isinstance(b, NdArr):
        return ndarr_binop(it, op, a, b)
    ha = getattr(a, "vc_binop", None)
    if ha is not None:
        return ha(it, op, b, False)
    hb = getattr(b, "vc_binop", None)
    if hb is not None:
        return hb(it, op, a, True)
    if isinstance(a, ItemV) or isinstance(b, ItemV):
        raise OpacityViolation("OPACITY: arithmetic on an item instead of binner.valueof(item)")
    if not (_is_conc_num(a) or _sym_num(a)) or not (_is_conc_num(b) or _sym_num(b)):
        raise Unsupported(f"binary operator {type(op).__name__} on {type(a).__name__} and {type(b).__name__}")
    if _is_conc_num(a) and _is_conc_num(b):
        return conc_binop(it, op, a, b)
    # infinities
    for x, y, flip in ((a, b, False), (b, a, True)):
        if isinstance(x, float) and x in (INF, -INF):
            if isinstance(op, ast.Add):
                return x
            if isinstance(op, ast.Sub):
                return -x if flip else x
            raise Unsupported("arithmetic with infinity")
    ta, tb = term_of(a), term_of(b)
    if L.is_bool(ta):
        ta = z3.If(ta, 1, 0)
    if L.is_bool(tb):
        tb = z3.If(tb, 1, 0)
    if isinstance(op, ast.Add):
        return SV(ta + tb)
    if isinstance(op, ast.Sub):
        return SV(ta - tb)
    if isinstance(op, ast.Mult):
        return SV(ta * tb)
    if isinstance(op, ast.Div):
        if it.branch(tb == 0):
            raise RaiseSig(ExcV("ZeroDivisionError"))
        return SV(_real(ta) / _real(tb))
    if isinstance(op, ast.FloorDiv):
        if it.branch(tb == 0):
            raise RaiseSig(ExcV("ZeroDivisionError"))
        if L.is_int(ta) and L.is_int(tb):
            if isinstance(b, int) and b > 0:
                return SV(ta / tb)
            return SV(py_floordiv_int(ta, tb))
        return SV(z3.ToReal(z3.ToInt(_real(ta) / _real(tb))))
    if isinstance(op, ast.Mod):
        if it.branch(tb == 0):
            raise RaiseSig(ExcV("ZeroDivisionError"))
        if L.is_int(ta) and L.is_int(tb):
            if isinstance(b, int) and b > 0:
                return SV(ta % tb)
            return SV(ta - tb * py_floordiv_int(ta, tb))
        raise Unsupported("modulo on reals")
    if isinstance(op, ast.Pow) and isinstance(b, int) and 0 <= b <= 4:
        r = z3.IntVal(1) if L.is_int(ta) else z3.RealVal(1)
        for _ in range(b):
            r = r * ta
        return SV(r)
    raise Unsupported(f"binary operator {type(op).__name__} on symbolic numbers")


def conc_binop(it, op, a, b):
    inf = lambda x: isinstance(x, float) and x in (INF, -INF)
    if inf(a) or inf(b):
        try:
            fa, fb = float(a), float(b)
            r = {ast.Add: lambda: fa + fb, ast.Sub: lambda: fa - fb, ast.Mult: lambda: fa * fb, ast.Div: lambda: fa / fb}[type(op)]()
            if r != r:
                raise Unsupported("nan")
            return norm_num(r)
        except KeyError:
            raise Unsupported("arithmetic with infinity")
    a = Fraction(a) if isinstance(a, float) else a
    b = Fraction(b) if isinstance(b, float) else b
    try:
        if isinstance(op, ast.Add):
            return norm_num(a + b)
        if isinstance(op, ast.Sub):
            return norm_num(a - b)
        if isinstance(op, ast.Mult):
            return norm_num(a * b)
        if isinstance(op, ast.Div):
            return norm_num(Fraction(a) / Fraction(b))
        if isinstance(op, ast.FloorDiv):
            return norm_num(a // b)
        if isinstance(op, ast.Mod):
            return norm_num(a % b)
        if isinstance(op, ast.Pow):
            return norm_num(a ** b)
    except ZeroDivisionError:
        raise RaiseSig(ExcV("ZeroDivisionError"))
    raise Unsupported(f"operator {type(op).__name__}")


_CMP = {ast.Lt: lambda x, y: x < y, ast.LtE: lambda x, y: x <= y, ast.Gt: lambda x, y: x > y, ast.GtE: lambda x, y: x >= y,
        ast.Eq: lambda x, y: x == y, ast.NotEq: lambda x, y: x != y}


def values_equal(it, a, b):
    """Python == ; returns bool or SV(Bool)"""
    if a is b and not isinstance(a, float):
        return True
    if isinstance(a, Obj) and isinstance(a.cls, ClassV):
        m, _ = a.cls.lookup("__eq__")
        if m is not None:
            return it.call(m, [a, b])
        return a is b
    if isinstance(a, ItemV) and isinstance(b, ItemV):
        return SV(a.t == b.t)
    if isinstance(a, ItemV) or isinstance(b, ItemV):
        if a is None or b is None:
            return False
        raise OpacityViolation("OPACITY: comparison of an item with a non-item")
    if isinstance(a, (tuple, PList)) and isinstance(b, (tuple, PList)):
        if isinstance(a, tuple) != isinstance(b, tuple):
            return False
        ea = a if isinstance(a, tuple) else a.elems
        eb = b if isinstance(b, tuple) else b.elems
        if len(ea) != len(eb):
            return False
        res = True
        for x, y in zip(ea, eb):
            res = it.bool_and(res, values_equal(it, x, y))
            if res is False:
                return False
        return res
    if (_is_conc_num(a) or _sym_num(a)) and (_is_conc_num(b) or _sym_num(b)):
        return compare(it, ast.Eq(), a, b)
    if a is None or b is None:
        return a is b
    if isinstance(a, (str,)) and isinstance(b, str):
        return a == b
    if isinstance(a, (ClassV, Closure, Builtin, ExcClass, ModuleV)) or isinstance(b, (ClassV, Closure, Builtin, ExcClass, ModuleV)):
        return a is b
    if isinstance(a, Obj) or isinstance(b, Obj):
        return a is b
    h = getattr(a, "vc_eq", None)
    if h is not None:
        return h(it, b)
    if type(a) is not type(b):
        return False
    raise Unsupported(f"equality on {type(a).__name__}")


def compare(it: Interp, op, a, b):
    if isinstance(op, ast.Is):
        return a is b if not (isinstance(a, (int, str)) and isinstance(b, (int, str))) else a == b
    if isinstance(op, ast.IsNot):
        return not compare(it, ast.Is(), a, b)
    if isinstance(op, ast.In):
        return contains(it, b, a)
    if isinstance(op, ast.NotIn):
        r = contains(it, b, a)
        return (not r) if isinstance(r, bool) else SV(z3.Not(r.t))
    ha = getattr(a, "vc_compare", None)
    if ha is not None and not isinstance(op, (ast.NotEq,)):
        return ha(it, op, b, False)
    hb = getattr(b, "vc_compare", None)
    if hb is not None and not isinstance(op, (ast.NotEq,)):
        return hb(it, op, a, True)
    if isinstance(op, ast.Eq) and not ((_is_conc_num(a) or _sym_num(a)) and (_is_conc_num(b) or _sym_num(b))):
        return values_equal(it, a, b)
    if isinstance(op, ast.NotEq) and not ((_is_conc_num(a) or _sym_num(a)) and (_is_conc_num(b) or _sym_num(b))):
        r = values_equal(it, a, b)
        return (not r) if isinstance(r, bool) else SV(z3.Not(r.t))
    ha = getattr(a, "vc_compare", None)
    if ha is not None:
        return ha(it, op, b, False)
    hb = getattr(b, "vc_compare", None)
    if hb is not None:
        return hb(it, op, a, True)
    if isinstance(a, ItemV) and isinstance(b, ItemV):
        # items may be comparable among themselves (names): an order `rank` unrelated to their values.  Code that orders items
        # instead of their values is therefore executed faithfully, and whatever depends on it fails its obligations.
        it.trust("items compared with each other are ordered by an arbitrary injective rank unrelated to their values")
        it.opacity_events.append(f"line {it.cur_line}: items are ordered by themselves, not by valueof")
        x, y = L.fresh("x", L.Item), L.fresh("y", L.Item)
        if not getattr(it, "_rank_axiom", False):
            it._rank_axiom = True
            it.assume(z3.ForAll([x, y], z3.Implies(L.rank(x) == L.rank(y), x == y)))
        return SV(_CMP[type(op)](L.rank(a.t), L.rank(b.t)))
    if isinstance(a, ItemV) or isinstance(b, ItemV):
        raise OpacityViolation("OPACITY: ordering comparison of an item with a number")
    if isinstance(a, tuple) and isinstance(b, tuple):
        return tuple_compare(it, op, a, b)
    if isinstance(a, (str, SymStr)) or isinstance(b, (str, SymStr)):
        if isinstance(a, str) and isinstance(b, str):
            return _CMP[type(op)](a, b)
        raise RaiseSig(ExcV("TypeError", ("ordering of str and number",)))
    if not (_is_conc_num(a) or _sym_num(a)) or not (_is_conc_num(b) or _sym_num(b)):
        if a is None or b is None:
            raise RaiseSig(ExcV("TypeError", ("ordering with None",)))
        raise Unsupported(f"comparison {type(op).__name__} on {type(a).__name__} and {type(b).__name__}")
    f = _CMP[type(op)]
    if _is_conc_num(a) and _is_conc_num(b):
        return bool(f(a, b))
    # infinity against a finite symbolic number
    if isinstance(a, float):
        return bool(f(a, 0.0))
    if isinstance(b, float):
        return bool(f(0.0, b))
    ta, tb = term_of(a), term_of(b)
    if L.is_bool(ta):
        ta = z3.If(ta, 1, 0)
    if L.is_bool(tb):
        tb = z3.If(tb, 1, 0)
    r = z3.simplify(f(ta, tb))
    if z3.is_true(r):
        return True
    if z3.is_false(r):
        return False
    return SV(r)


def tuple_compare(it, op, a, b):
    """lexicographic order on tuples (used by heapq entries)"""
    if isinstance(op, (ast.Gt, ast.GtE)):
        return tuple_compare(it, ast.Lt() if isinstance(op, ast.Gt) else ast.LtE(), b, a)
    strict = isinstance(op, ast.Lt)
    for x, y in zip(a, b):
        eq = values_equal(it, x, y)
        if it.truth(eq):
            continue
        return compare(it, ast.Lt(), x, y)
    if len(a) == len(b):
        return not strict
    return len(a) < len(b)


def contains(it, cont, x):
    if isinstance(cont, (PList, PSet, tuple)):
        elems = cont if isinstance(cont, tuple) else cont.elems
        res = False
        for e in elems:
            c = values_equal(it, e, x)
            if c is True:
                return True
            if c is False:
                continue
            res = c if res is False else SV(z3.Or(res.t, c.t))
        return res
    if isinstance(cont, PDict):
        return contains(it, tuple(cont.keys), x)
    if isinstance(cont, NdArr):
        return contains(it, tuple(cont.tolist()), x)
    if isinstance(cont, SRange):
        return it.bool_and(compare(it, ast.LtE(), cont.start, x), compare(it, ast.Lt(), x, cont.stop))
    raise Unsupported(f"'in' on {type(cont).__name__}")


def truth(it: Interp, v):
    if isinstance(v, bool):
        return v
    if v is None:
        return False
    if isinstance(v, SV):
        if L.is_bool(v.t):
            return it.branch(v.t)
        return it.branch(v.t != 0)
    if isinstance(v, (int, float, Fraction)):
        return v != 0
    if isinstance(v, ItemV):
        it.opacity_events.append(f"line {it.cur_line}: truth value of an item")
        it.approximate = True       # realisable only by a presentation with names (0, ""): a counter-model is not replayable on plain numbers
        return it.branch(L.truthy(v.t))
    if isinstance(v, (PList, PSet)):
        return len(v.elems) > 0
    if isinstance(v, tuple):
        return len(v) > 0
    if isinstance(v, PDict):
        return len(v.keys) > 0
    if isinstance(v, str):
        return len(v) > 0
    if isinstance(v, SSeq):
        return it.branch(v.hi > v.lo)
    if isinstance(v, NdArr):
        if v.n == 1:
            return truth(it, v.get(0))
        raise RaiseSig(ExcV("ValueError", ("truth value of an array is ambiguous",)))
    if isinstance(v, Obj):
        m, _ = v.cls.lookup("__len__")
        if m is not None:
            return truth(it, it.call(m, [v]))
        return True
    if isinstance(v, SRange):
        return truth(it, compare(it, ast.Lt(), v.start, v.stop))
    if isinstance(v, CounterV):
        return len(v.elems) > 0
    return True


# ===================================================================== indexing
def norm_index(it, idx, n, what="index"):
    """concrete container of length n, idx int or SV -> python int (forks when symbolic)"""
    if isinstance(idx, bool):
        idx = int(idx)
    if isinstance(idx, int):
        if -n <= idx < n:
            return idx % n if n else 0
        raise RaiseSig(ExcV("IndexError", (what,)))
    if isinstance(idx, SV) and L.is_int(z3.simplify(idx.t) if True else idx.t):
        t = idx.t
        opts = [t == k for k in range(-n, n)] + [z3.Or(t < -n, t >= n)]
        d = it.decide(opts)
        if d == 2 * n:
            raise RaiseSig(ExcV("IndexError", (what,)))
        return (d - n) % n
    if isinstance(idx, SV) and L.is_real(idx.t):
        raise RaiseSig(ExcV("TypeError", ("list indices must be integers",)))
    if isinstance(idx, Fraction):
        raise RaiseSig(ExcV("TypeError", ("list indices must be integers",)))
    raise Unsupported(f"index of type {type(idx).__name__}")


def sseq_index(it, s: SSeq, idx):
    """returns the absolute position term; IndexError path when out of range"""
    n = s.hi - s.lo
    if isinstance(idx, int) and not isinstance(idx, bool):
        ok = (z3.IntVal(idx) < n) if idx >= 0 else (z3.IntVal(-idx) <= n)
        pos = s.lo + idx if idx >= 0 else s.hi + idx
    elif isinstance(idx, SV) and L.is_int(idx.t):
        ok = z3.And(idx.t >= -n, idx.t < n)
        pos = z3.If(idx.t >= 0, s.lo + idx.t, s.hi + idx.t)
    else:
        raise Unsupported("index into a symbolic sequence")
    if not it.branch(ok):
        raise RaiseSig(ExcV("IndexError", ("sequence index out of range",)))
    return z3.simplify(pos)


def getitem(it: Interp, base, idx):
    if isinstance(base, PList):
        return base.elems[norm_index(it, idx, len(base.elems))]
    if isinstance(base, tuple):
        return base[norm_index(it, idx, len(base))]
    if isinstance(base, NdArr):
        if isinstance(idx, (PList, tuple, NdArr)):
            raise Unsupported("fancy indexing")
        return base.get(norm_index(it, idx, base.n))
    if isinstance(base, SSeq):
        return base.wrap(z3.Select(base.arr, sseq_index(it, base, idx)))
    if isinstance(base, PDict):
        for k, v in zip(base.keys, base.vals):
            if truth(it, values_equal(it, k, idx)):
                return v
        raise RaiseSig(ExcV("KeyError", (idx,)))
    if isinstance(base, SRange):
        if isinstance(idx, int) and all(isinstance(x, int) for x in (base.start, base.stop)):
            return range(base.start, base.stop, base.step)[idx]
        raise Unsupported("subscript of a symbolic range")
    if base is None:
        raise RaiseSig(ExcV("TypeError", ("'NoneType' object is not subscriptable",)))
    if isinstance(base, (int, Fraction, float, SV)):
        raise RaiseSig(ExcV("TypeError", ("number is not subscriptable",)))
    if isinstance(base, ItemV):
        raise Unsupported("OPACITY: subscript of an item")
    h = getattr(base, "vc_getitem", None)
    if h is not None:
        return h(it, idx)
    if isinstance(base, Obj):
        m, _ = base.cls.lookup("__getitem__")
        if m is not None:
            return it.call(m, [base, idx])
    if isinstance(base, (ClassV, ModuleV, Builtin, TypeTag)):      # typing subscripts such as List[int]
        return base
    raise Unsupported(f"subscript of {type(base).__name__}")


def setitem(it: Interp, base, idx, v):
    if isinstance(base, PList):
        base.elems[norm_index(it, idx, len(base.elems))] = v
        return
    if isinstance(base, NdArr):
        eps = getattr(base, "rel_eps", None)
        if eps and isinstance(v, (SV, int, Fraction)) and not isinstance(v, bool):
            t = term_of(v)
            t = z3.ToReal(t) if L.is_int(t) else t
            r = L.fresh("rounded", L.RealS)
            at = z3.If(t >= 0, t, -t)
            it.assume(z3.And(r - t <= L.to_z3(eps) * at, t - r <= L.to_z3(eps) * at))
            v = SV(r)
        base.set(norm_index(it, idx, base.n), v)
        return
    if isinstance(base, PDict):
        for k in range(len(base.keys)):
            if truth(it, values_equal(it, base.keys[k], idx)):
                base.vals[k] = v
                return
        base.keys.append(idx)
        base.vals.append(v)
        return
    if isinstance(base, tuple):
        raise RaiseSig(ExcV("TypeError", ("tuple does not support item assignment",)))
    if isinstance(base, SSeq):
        if base.frozen:
            raise Unsupported("FRAME: store into a sequence that is being iterated / belongs to the caller")
        pos = sseq_index(it, base, idx)
        base.arr = z3.Store(base.arr, pos, v.t if isinstance(v, (SV, ItemV)) else L.to_z3(v))
        return
    h = getattr(base, "vc_setitem", None)
    if h is not None:
        return h(it, idx, v)
    raise Unsupported(f"item assignment on {type(base).__name__}")


def delitem(it: Interp, base, idx):
    if isinstance(base, PList):
        del base.elems[norm_index(it, idx, len(base.elems))]
        return
    if isinstance(base, SSeq):
        if base.frozen:
            raise Unsupported("FRAME: del on a sequence that belongs to the caller / is being iterated")
        n = base.hi - base.lo
        if not it.branch(n > 0):
            raise RaiseSig(ExcV("IndexError", ("del from empty list",)))
        if idx == 0:
            it.trust("lemma:rbag-left-unfolding (proved by induction in pyvc/lemmas.py)")
            it.assume(L.unfold_left(base.arr, base.lo, base.hi))
            base.lo = z3.simplify(base.lo + 1)
            return
        if idx == -1:
            it.assume(L.unfold_right(base.arr, base.lo, base.hi))
            base.hi = z3.simplify(base.hi - 1)
            return
        raise Unsupported("del of an inner element of a symbolic sequence")
    if isinstance(base, PDict):
        for k in range(len(base.keys)):
            if truth(it, values_equal(it, base.keys[k], idx)):
                del base.keys[k], base.vals[k]
                return
        raise RaiseSig(ExcV("KeyError", (idx,)))
    raise Unsupported(f"del item on {type(base).__name__}")


def _clamp(it, x, n, default):
    """python slice bound -> concrete int in [0,n]"""
    if x is None:
        return default
    if isinstance(x, SV):
        t = x.t
        opts = [t <= -n] + [t == k for k in range(-n + 1, n)] + [t >= n]
        d = it.decide(opts)
        if d == 0:
            return 0
        if d == len(opts) - 1:
            return n
        k = d - n
        return k if k >= 0 else n + k
    if isinstance(x, int):
        if x < 0:
            return max(0, n + x)
        return min(x, n)
    raise RaiseSig(ExcV("TypeError", ("slice indices must be integers",)))


def getslice(it: Interp, base, lo, hi):
    if isinstance(base, (PList, tuple)):
        elems = base.elems if isinstance(base, PList) else base
        a, b = _clamp(it, lo, len(elems), 0), _clamp(it, hi, len(elems), len(elems))
        r = elems[a:b] if a <= b else elems[0:0]
        return PList(r) if isinstance(base, PList) else tuple(r)
    if isinstance(base, NdArr):
        a, b = _clamp(it, lo, base.n, 0), _clamp(it, hi, base.n, base.n)
        it.trust("numpy: basic slicing returns a view on the same buffer")
        w = NdArr(base.buf, base.off + a, max(0, b - a))
        if getattr(base, "rel_eps", None):
            w.rel_eps = base.rel_eps
        return w
    if isinstance(base, SSeq):
        n = base.hi - base.lo

        def clamp(x, default):
            if x is None:
                return default
            t = term_of(x)
            return z3.If(t >= 0, z3.If(t <= n, base.lo + t, base.hi), z3.If(n + t >= 0, base.hi + t, base.lo))
        a, b = clamp(lo, base.lo), clamp(hi, base.hi)
        b = z3.If(b >= a, b, a)
        return SSeq(base.arr, z3.simplify(a), z3.simplify(b), base.kind, base.name)
    if isinstance(base, SRange):
        raise Unsupported("slice of a range")
    h = getattr(base, "vc_getslice", None)
    if h is not None:
        return h(it, lo, hi)
    raise Unsupported(f"slice of {type(base).__name__}")


def setslice(it: Interp, base, lo, hi, v):
    vals = iterate(it, v)
    if isinstance(base, PList):
        a, b = _clamp(it, lo, len(base.elems), 0), _clamp(it, hi, len(base.elems), len(base.elems))
        base.elems[a:b] = vals
        return
    if isinstance(base, NdArr):
        a, b = _clamp(it, lo, base.n, 0), _clamp(it, hi, base.n, base.n)
        if len(vals) != b - a and len(vals) != 1:
            raise RaiseSig(ExcV("ValueError", ("could not broadcast",)))
        for k in range(a, b):
            x = vals[k - a] if len(vals) != 1 else vals[0]
            if isinstance(x, ItemV):
                raise OpacityViolation("OPACITY: item stored into a numeric array")
            base.set(k, x)
        return
    raise Unsupported(f"slice assignment on {type(base).__name__}")


def iterate(it: Interp, v, live=False):
    """concrete list of the elements of an iterable of concrete length"""
    if isinstance(v, PList):
        return v.elems if live else list(v.elems)
    if isinstance(v, LazyGen):
        return v.exhaust()
    if isinstance(v, tuple):
        return list(v)
    if isinstance(v, PSet):
        return list(v.elems)
    if isinstance(v, PDict):
        return list(v.keys)
    if isinstance(v, NdArr):
        return v.tolist()
    if isinstance(v, SRange):
        if all(isinstance(x, int) for x in (v.start, v.stop, v.step)):
            return list(range(v.start, v.stop, v.step))
        raise Unsupported("iteration over a symbolic range outside a loop")
    if isinstance(v, SSeq):
        # concrete length?
        n = z3.simplify(v.hi - v.lo)
        if z3.is_int_value(n):
            return [v.wrap(z3.Select(v.arr, v.lo + k)) for k in range(n.as_long())]
        raise Unsupported("iteration over a symbolic-length sequence outside a loop")
    if isinstance(v, str):
        return list(v)
    h = getattr(v, "vc_iterate", None)
    if h is not None:
        return h(it)
    if isinstance(v, Obj):
        m, _ = v.cls.lookup("__iter__")
        if m is not None:
            return iterate(it, it.call(m, [v]))
    if isinstance(v, (int, Fraction, float, SV)) or v is None:
        raise RaiseSig(ExcV("TypeError", ("object is not iterable",)))
    raise Unsupported(f"iteration over {type(v).__name__}")


def set_add(it, s: PSet, x):
    c = contains(it, s, x)
    if not truth(it, c):
        s.elems.append(x)


def length(it, v):
    if isinstance(v, (PList, PSet)):
        return len(v.elems)
    if isinstance(v, (tuple, str)):
        return len(v)
    if isinstance(v, PDict):
        return len(v.keys)
    if isinstance(v, NdArr):
        return v.n
    if isinstance(v, SSeq):
        n = z3.simplify(v.hi - v.lo)
        return n.as_long() if z3.is_int_value(n) else SV(n)
    if isinstance(v, SRange):
        if all(isinstance(x, int) for x in (v.start, v.stop, v.step)):
            return len(range(v.start, v.stop, v.step))
        n = term_of(v.stop) - term_of(v.start)
        return SV(z3.If(n >= 0, n, 0))
    h = getattr(v, "vc_len", None)
    if h is not None:
        return h(it)
    if isinstance(v, Obj):
        m, _ = v.cls.lookup("__len__")
        if m is not None:
            return it.call(m, [v])
    raise RaiseSig(ExcV("TypeError", (f"object of type {type(v).__name__} has no len()",)))


# ===================================================================== builtins
def _key_fn(it, kwargs):
    k = kwargs.get("key")
    if k is None:
        return lambda x: x
    return lambda x: it.call(k, [x])


def bi_len(it, args, kw):
    return length(it, args[0])


def bi_range(it, args, kw):
    a = [x for x in args]
    for i, x in enumerate(a):       # a bound the path condition determines (e.g. numbins after `if numbins != 2: raise`) is used concretely
        if isinstance(x, SV) and L.is_int(x.t) and getattr(it, "concretize_ranges", False):
            u = it.unique_int(x.t)
            if u is not None:
                a[i] = u
    for x in a:
        if isinstance(x, (Fraction, float)) or (isinstance(x, SV) and not L.is_int(x.t)):
            raise RaiseSig(ExcV("TypeError", ("range() needs integers",)))
    if len(a) == 1:
        return SRange(0, a[0], 1)
    if len(a) == 2:
        return SRange(a[0], a[1], 1)
    return SRange(a[0], a[1], a[2])


def key_lt(it, a, b):
    """a < b on sort keys, as bool or SV"""
    return compare(it, ast.Lt(), a, b)


def forking_sort(it, elems, keyf, reverse):
    """stable insertion sort forking on every symbolic comparison (used for objects; small lists only)"""
    out = []           # list of (key, elem)
    for x in elems:
        k = keyf(x)
        pos = len(out)
        while pos > 0:
            pk = out[pos - 1][0]
            c = key_lt(it, pk, k) if reverse else key_lt(it, k, pk)      # strictly out of order -> move left
            if truth(it, c):
                pos -= 1
            else:
                break
        out.insert(pos, (k, x))
    return [x for _, x in out]


def sym_sorted(it, elems, keyf, reverse):
    """sorted() on items / numbers with symbolic keys: a symbolic stable permutation (no fork over n! orders).
    LIBRARY CONTRACT (trusted, A2): the result is a permutation of the input, ordered by key, ties in input order."""
    n = len(elems)
    it.trust("builtin sorted/list.sort: stable permutation ordered by key")
    is_item = all(isinstance(x, ItemV) for x in elems)
    def item_key(f):
        def g(x):
            k = f(x)
            if isinstance(k, ItemV):        # items ordered by themselves: their own (arbitrary, injective) rank -- see compare()
                it.opacity_events.append(f"line {it.cur_line}: sorted() orders the items by themselves, not by valueof")
                xx, yy = L.fresh("x", L.Item), L.fresh("y", L.Item)
                if not getattr(it, "_rank_axiom", False):
                    it._rank_axiom = True
                    it.assume(z3.ForAll([xx, yy], z3.Implies(L.rank(xx) == L.rank(yy), xx == yy)))
                return SV(L.rank(k.t))
            return k
        return g
    keyf = item_key(keyf)
    keys = [keyf(x) for x in elems]
    if all(isinstance(k, (int, Fraction, str)) and not isinstance(k, bool) for k in keys) and len({type(k) is str for k in keys}) <= 1:
        order = sorted(range(n), key=lambda i: keys[i], reverse=reverse)
        return [elems[i] for i in order]
    if not (is_item or all(isinstance(x, (SV, int, Fraction)) and not isinstance(x, bool) for x in elems)):
        return forking_sort(it, elems, keyf, reverse)
    if all(isinstance(x, int) for x in elems):
        # concrete elements (bin indices) ordered by symbolic keys: a comparison sort that forks only on feasible comparisons,
        # instead of a symbolic permutation whose concrete values would have to be guessed afterwards
        return forking_sort(it, elems, keyf, reverse)
    if n <= 1:
        return list(elems)
    pos = [L.fresh("pos", L.IntS) for _ in range(n)]
    if is_item:
        res = [ItemV(L.fresh("srt", L.Item)) for _ in range(n)]
    else:
        sort = L.IntS if all(isinstance(x, int) or L.is_int(x.t) for x in elems) else L.RealS
        res = [SV(L.fresh("srt", sort)) for _ in range(n)]
    for i in range(n):
        it.assume(z3.And(pos[i] >= 0, pos[i] < n))
        it.assume(z3.And([z3.Implies(pos[i] == p, (res[p].t == elems[i].t) if is_item else (res[p].t == term_of(elems[i]))) for p in range(n)]))
    it.assume(z3.Distinct(pos))
    for p in range(n):      # (redundant, helps pruning: every result element is one of the inputs)
        it.assume(z3.Or([(res[p].t == elems[i].t) if is_item else (res[p].t == term_of(elems[i])) for i in range(n)]))
    if not hasattr(it, "sorted_log"):
        it.sorted_log = []
    it.sorted_log.append(([str(term_of(e)) if not is_item else str(e.t) for e in elems], [str(r.t) for r in res]))
    rkeys = [keyf(r) for r in res]      # evaluated AFTER the permutation facts, so that e.g. an index key is known to be in range
    for p in range(n - 1):
        a, b = term_of(rkeys[p]), term_of(rkeys[p + 1])
        it.assume(a >= b if reverse else a <= b)
    for i in range(n):
        for j in range(i + 1, n):
            it.assume(z3.Implies(term_of(keys[i]) == term_of(keys[j]), pos[i] < pos[j]))
    return res


def bi_sorted(it, args, kw):
    src = args[0]
    reverse = kw.get("reverse", False)
    if not isinstance(reverse, bool):
        raise Unsupported("sorted(reverse=<symbolic>)")
    if isinstance(src, SSeq):
        return sseq_sorted(it, src, kw.get("key"), reverse)
    elems = iterate(it, src)
    return PList(sym_sorted(it, elems, _key_fn(it, kw), reverse))


def sseq_sorted(it, src: SSeq, key, reverse):
    """T1 contract of sorted() on a symbolic-length sequence: a fresh sequence with the same bag, ordered by key."""
    it.trust("builtin sorted (symbolic length): same multiset, ordered by key")
    n = src.hi - src.lo
    arr = L.fresh("sorted", src.arr.sort())
    res = SSeq(arr, z3.IntVal(0), z3.simplify(n), src.kind, "sorted(" + src.name + ")")
    if src.kind == "item":
        it.assume(L.rbag(arr, 0, n) == L.rbag(src.arr, src.lo, src.hi))
        it.assume(L.rtot(arr, 0, n) == L.rtot(src.arr, src.lo, src.hi))
    a, b = L.fresh("a", L.IntS), L.fresh("b", L.IntS)
    ka = it.call(key, [res.wrap(z3.Select(arr, a))]) if key is not None else res.wrap(z3.Select(arr, a))
    kb = it.call(key, [res.wrap(z3.Select(arr, b))]) if key is not None else res.wrap(z3.Select(arr, b))
    if key is None and src.kind == "item":
        it.trust("items compared with each other are ordered by an arbitrary injective rank unrelated to their values")
        it.opacity_events.append(f"line {it.cur_line}: sorted() orders the items by themselves, not by valueof")
        ka, kb = SV(L.rank(ka.t)), SV(L.rank(kb.t))
    ta, tb = term_of(ka), term_of(kb)
    it.assume(z3.ForAll([a, b], z3.Implies(z3.And(0 <= a, a <= b, b < n), ta >= tb if reverse else ta <= tb)))
    # permutation witness: result[a] = source[perm[a]], perm injective into the source window
    perm = L.fresh("perm", L.NSeq)
    it.assume(z3.ForAll([a], z3.Implies(z3.And(0 <= a, a < n), z3.And(src.lo <= perm[a], perm[a] < src.hi, arr[a] == src.arr[perm[a]]))))
    it.assume(z3.ForAll([a, b], z3.Implies(z3.And(0 <= a, a < b, b < n), perm[a] != perm[b])))
    inv = L.fresh("invperm", L.NSeq)     # and its inverse: source[k] = result[inv[k]]
    it.assume(z3.ForAll([a], z3.Implies(z3.And(src.lo <= a, a < src.hi), z3.And(0 <= inv[a], inv[a] < n, arr[inv[a]] == src.arr[a], perm[inv[a]] == a))))
    it.assume(z3.ForAll([a], z3.Implies(z3.And(0 <= a, a < n), inv[perm[a]] == a)))      # (closes the instantiation chain perm/inv)
    it.assume(z3.Implies(n > 0, z3.And(src.lo <= perm[0], perm[0] < src.hi, arr[0] == src.arr[perm[0]])))
    it.assume(L.empty_range(arr, z3.IntVal(0), z3.IntVal(0)))
    res.perm = perm
    res.sorted_by = (key, reverse)
    res.source = src.snapshot()
    return res


def extremum(it, args, kw, want_max):
    name = "max" if want_max else "min"
    if len(args) > 1:
        elems = list(args)
    else:
        src = args[0]
        if isinstance(src, SRange) and not all(isinstance(x, int) for x in (src.start, src.stop)):
            return srange_extremum(it, src, kw.get("key"), want_max)
        if isinstance(src, SSeq):
            return sseq_extremum(it, src, kw.get("key"), want_max)
        if isinstance(src, MappedSeq):
            from .absbin import is_valueof
            if want_max and is_valueof(src.f) and src.seq.kind == "item" and "key" not in kw:
                q = src.seq
                if not it.branch(q.lo < q.hi):
                    raise RaiseSig(ExcV("ValueError", ("max() arg is an empty sequence",)))
                it.trust("max(map(valueof, s)) = rmax(s)  (definition of rmax: an attained upper bound of the values)")
                it.assume(L.rmax_facts(q.arr, q.lo, q.hi))
                return SV(L.rmax(q.arr, q.lo, q.hi))
            raise Unsupported("min/max of map(f, symbolic sequence)")
        elems = iterate(it, src)
        unordered = isinstance(src, PSet)
    if len(args) > 1:
        unordered = False
    if not elems:
        if "default" in kw:
            return kw["default"]
        raise RaiseSig(ExcV("ValueError", (f"{name}() arg is an empty sequence",)))
    keyf = _key_fn(it, kw)
    keys = [keyf(x) for x in elems]
    if len(elems) == 1:
        return elems[0]
    it.trust(f"builtin {name}: first extremal element" + (" (any extremal element for a set)" if unordered else ""))
    # numeric elements without key: return an ite-term instead of forking
    def _sortkind(x):
        return "int" if isinstance(x, (bool, int)) or (isinstance(x, SV) and not L.is_real(x.t)) else "real"
    if "key" not in kw and all((_is_conc_num(x) or _sym_num(x)) and not (isinstance(x, float)) for x in elems) and len({_sortkind(x) for x in elems}) == 1:
        if all(_is_conc_num(x) for x in elems):
            return (max if want_max else min)(elems)
        r = term_of(elems[0])
        for x in elems[1:]:
            t = term_of(x)
            r = z3.If(t > r, t, r) if want_max else z3.If(t < r, t, r)
        return SV(r)
    opts = []
    for c in range(len(elems)):
        conj = []
        for j in range(len(elems)):
            if j == c:
                continue
            better = compare(it, ast.Gt() if want_max else ast.Lt(), keys[j], keys[c])     # j strictly better than c
            bt = term_of(better)
            if j < c and not unordered:
                # first extremal: earlier ones must be strictly worse
                ge = compare(it, ast.GtE() if want_max else ast.LtE(), keys[j], keys[c])
                conj.append(z3.Not(term_of(ge)))
            else:
                conj.append(z3.Not(bt))
        opts.append(z3.And(conj) if conj else z3.BoolVal(True))
    return elems[it.decide(opts)]


def srange_extremum(it, r: SRange, key, want_max):
    """min/max(range(n), key=f) with symbolic n: LIBRARY CONTRACT: the first extremal index"""
    it.trust("builtin min/max over range(n) with key: first extremal index")
    lo, hi = term_of(r.start), term_of(r.stop)
    if not it.branch(lo < hi):
        raise RaiseSig(ExcV("ValueError", ("arg is an empty sequence",)))
    c = L.fresh("argext", L.IntS)
    it.assume(z3.And(lo <= c, c < hi))
    j = L.fresh("j", L.IntS)
    if key is None:
        return SV(hi - 1) if want_max else SV(lo)
    it.solver.push()
    it.solver.add(z3.And(lo <= j, j < hi))
    nfacts = len(it.facts)
    kj = term_of(it.call(key, [SV(j)]))
    del it.facts[nfacts:]
    it.solver.pop()
    kc = term_of(it.call(key, [SV(c)]))
    if want_max:
        it.assume(z3.ForAll([j], z3.Implies(z3.And(lo <= j, j < hi), z3.And(kj <= kc, z3.Implies(j < c, kj < kc)))))
    else:
        it.assume(z3.ForAll([j], z3.Implies(z3.And(lo <= j, j < hi), z3.And(kj >= kc, z3.Implies(j < c, kj > kc)))))
    return SV(c)


def sseq_extremum(it, s: SSeq, key, want_max):
    it.trust("builtin min/max over a sequence: an extremal element")
    if not it.branch(s.lo < s.hi):
        raise RaiseSig(ExcV("ValueError", ("arg is an empty sequence",)))
    c, j = L.fresh("argext", L.IntS), L.fresh("j", L.IntS)
    it.assume(z3.And(s.lo <= c, c < s.hi))
    f = (lambda x: it.call(key, [x])) if key is not None else (lambda x: x)
    if s.kind == "item" and key is None:
        raise Unsupported("OPACITY: min/max over items without a key")
    kj, kc = term_of(f(s.wrap(z3.Select(s.arr, j)))), term_of(f(s.wrap(z3.Select(s.arr, c))))
    it.assume(z3.ForAll([j], z3.Implies(z3.And(s.lo <= j, j < s.hi), kj <= kc if want_max else kj >= kc)))
    return s.wrap(z3.Select(s.arr, c))


def bi_min(it, args, kw):
    return extremum(it, args, kw, False)


def bi_max(it, args, kw):
    return extremum(it, args, kw, True)


def bi_sum(it, args, kw):
    src = args[0]
    start = args[1] if len(args) > 1 else 0
    if isinstance(src, MappedSeq):
        return src.total(it)
    if isinstance(src, SSeq):
        if src.kind == "item":
            raise OpacityViolation("OPACITY: sum() over items instead of their values")
        raise Unsupported("sum over a symbolic-length numeric sequence")
    acc = start
    for x in iterate(it, src):
        acc = binop(it, ast.Add(), acc, x)
    return acc


class MappedSeq:
    """map(f, <symbolic-length sequence>) -- only the uses sum(map(valueof, items)) / max(map(valueof, items)) are modelled"""
    def __init__(self, f, seq):
        self.f, self.seq = f, seq

    def total(self, it):
        from .absbin import is_valueof
        if is_valueof(self.f) and self.seq.kind == "item":
            it.trust("sum(map(valueof, s)) = rtot(s)  (definition of rtot)")
            a, lo, hi = self.seq.arr, self.seq.lo, self.seq.hi
            for d in (0, 1, 2):          # definitional unfoldings, enough to evaluate the total of a window of at most three elements
                it.assume(L.unfold_right(a, lo, hi - d))
                it.assume(L.empty_range(a, lo, hi - d))
            return SV(L.rtot(a, lo, hi))
        raise Unsupported("sum(map(f, symbolic sequence)) for f other than valueof")


def bi_map(it, args, kw):
    f = args[0]
    if len(args) == 2 and isinstance(args[1], SSeq):
        return MappedSeq(f, args[1])
    seqs = [iterate(it, a) for a in args[1:]]
    return PList([it.call(f, list(xs)) for xs in zip(*seqs)])


def bi_filter(it, args, kw):
    f = args[0]
    return PList([x for x in iterate(it, args[1]) if truth(it, it.call(f, [x]) if f is not None else x)])


def bi_list(it, args, kw):
    if not args:
        return PList()
    src = args[0]
    if isinstance(src, SSeq):
        return SSeq(src.arr, src.lo, src.hi, src.kind, src.name)
    h = getattr(src, "vc_tolist", None)
    if h is not None:
        return h(it)
    return PList(iterate(it, src))


def bi_tuple(it, args, kw):
    if not args:
        return ()
    src = args[0]
    h = getattr(src, "vc_totuple", None)
    if h is not None:
        return h(it)
    if isinstance(src, SSeq):
        raise Unsupported("tuple() of a symbolic-length sequence")
    return tuple(iterate(it, src))


def bi_set(it, args, kw):
    s = PSet()
    if args:
        for x in iterate(it, args[0]):
            set_add(it, s, x)
    return s


def bi_dict(it, args, kw):
    d = PDict()
    if args:
        src = args[0]
        if isinstance(src, PDict):
            d.keys, d.vals = list(src.keys), list(src.vals)
        else:
            for kv in iterate(it, src):
                k, v = iterate(it, kv)
                setitem(it, d, k, v)
    for k, v in kw.items():
        setitem(it, d, k, v)
    return d


def bi_abs(it, args, kw):
    x = args[0]
    if isinstance(x, SV):
        return SV(z3.If(x.t >= 0, x.t, -x.t))
    if isinstance(x, ItemV):
        raise OpacityViolation("OPACITY: abs of an item")
    return abs(x)


def bi_int(it, args, kw):
    x = args[0]
    if isinstance(x, SV):
        if L.is_int(x.t):
            return x
        t = x.t
        return SV(z3.If(t >= 0, z3.ToInt(t), -z3.ToInt(-t)))      # truncation toward zero
    if isinstance(x, (int, Fraction)):
        return int(x)
    if isinstance(x, float):
        raise RaiseSig(ExcV("OverflowError"))
    h = getattr(x, "vc_int", None)
    if h is not None:
        return h(it)
    raise Unsupported(f"int() of {type(x).__name__}")


def bi_float(it, args, kw):
    x = args[0]
    if isinstance(x, SV):
        return SV(_real(x.t))
    if isinstance(x, str):
        return norm_num(float(x))
    return x


def class_matches(it, v, cls):
    cls = it.force(cls)
    if isinstance(cls, tuple):
        return any(class_matches(it, v, c) for c in cls)
    if isinstance(cls, ClassV):
        if isinstance(v, Obj):
            return v.cls.issubclass(cls)
        h = getattr(v, "vc_isinstance", None)
        if h is not None:
            return h(it, cls)
        return False
    if isinstance(cls, TypeTag):
        return cls.test(it, v)
    raise Unsupported(f"isinstance with {cls!r}")


_TYPECODES = {}


def bi_isinstance(it, args, kw):
    v, cls = args[0], it.force(args[1])
    if isinstance(v, ItemV):
        # a type test on an opaque item: an unknown predicate of the item (lists of numbers and lists of names both exist)
        names = tuple(sorted(getattr(c, "name", repr(c)) for c in (cls if isinstance(cls, tuple) else (cls,))))
        code = _TYPECODES.setdefault(names, len(_TYPECODES))
        it.opacity_events.append(f"line {it.cur_line}: isinstance() on an item")
        it.approximate = True       # depends on the presentation of the items, not on their values
        return SV(L.istype(v.t, code))
    return class_matches(it, v, cls)


class TypeTag:
    def __init__(self, name, test, ctor=None):
        self.name, self.test, self.ctor = name, test, ctor

    def vc_call(self, it, args, kw):
        if self.ctor is None:
            raise Unsupported(f"call of type {self.name}")
        return self.ctor(it, args, kw)

    def __repr__(self):
        return f"<type {self.name}>"


def _is_intlike(it, v):
    if isinstance(v, bool) or isinstance(v, int):
        return True
    if isinstance(v, SV):
        return L.is_int(v.t) or L.is_bool(v.t)
    return False


def _is_number(it, v):
    return isinstance(v, (int, Fraction, float)) or isinstance(v, SV)


def bi_enumerate(it, args, kw):
    start = args[1] if len(args) > 1 else kw.get("start", 0)
    if isinstance(args[0], SSeq):
        raise Unsupported("enumerate over a symbolic-length sequence")
    return PList([(start + k, x) for k, x in enumerate(iterate(it, args[0]))])


def bi_zip(it, args, kw):
    return PList([tuple(xs) for xs in zip(*[iterate(it, a) for a in args])])


def bi_reversed(it, args, kw):
    src = args[0]
    if isinstance(src, SRange) and not all(isinstance(x, int) for x in (src.start, src.stop)):
        raise Unsupported("reversed() of a symbolic range")
    return PList(list(reversed(iterate(it, src))))


def bi_next(it, args, kw):
    g = args[0]
    if isinstance(g, Counter_):
        g.n += 1
        return g.n - 1
    if isinstance(g, LazyGen):
        x = g.next()
        if x is not LazyGen.STOP:
            return x
        if len(args) > 1:
            return args[1]
        raise RaiseSig(ExcV("StopIteration"))
    if isinstance(g, GenResult):
        if g.pos < len(g.elems):
            g.pos += 1
            return g.elems[g.pos - 1]
        if len(args) > 1:
            return args[1]
        raise RaiseSig(ExcV("StopIteration"))
    raise Unsupported("next() on " + type(g).__name__)


def bi_iter(it, args, kw):
    if isinstance(args[0], LazyGen):
        return args[0]
    return GenResult(iterate(it, args[0]))


def bi_print(it, args, kw):
    return None


def bi_str(it, args, kw):
    if args and isinstance(args[0], str):
        return args[0]
    return SymStr()


def bi_any(it, args, kw):
    if isinstance(args[0], QuantGen):
        return args[0].exists()
    for x in iterate(it, args[0]):
        if truth(it, x):
            return True
    return False


def bi_all(it, args, kw):
    if isinstance(args[0], QuantGen):
        return args[0].forall()
    for x in iterate(it, args[0]):
        if not truth(it, x):
            return False
    return True


def bi_hash(it, args, kw):
    it.trust("hash(): only its use inside set/dict membership is modelled (by equality)")
    return HashToken(args[0])


class HashToken:
    def __init__(self, v):
        self.v = v

    def vc_eq(self, it, other):
        return isinstance(other, HashToken) and values_equal(it, self.v, other.v)


def bi_super(it, args, kw):
    if args:
        raise Unsupported("super() with arguments")
    fr = it.frames[-1]
    f, env = fr[0], fr[1]
    first = f.node.args.args[0].arg
    return SuperProxy(env.vars[first], f.cls)


def bi_round(it, args, kw):
    x = args[0]
    nd = args[1] if len(args) > 1 else kw.get("ndigits")
    if isinstance(x, int) or (isinstance(x, SV) and L.is_int(x.t) and (nd is None or (isinstance(nd, int) and nd >= 0))):
        return x
    if isinstance(x, (SV, Fraction)) and (nd is None or isinstance(nd, int)):
        it.trust("round(x, n): some value within half a unit of the n-th decimal of x")
        t = term_of(x)
        r = L.fresh("rounded", L.RealS if nd else L.IntS)
        half = L.to_z3(Fraction(1, 2 * 10 ** (nd or 0)))
        it.assume(z3.And((z3.ToReal(r) if L.is_int(r) else r) - t <= half, t - (z3.ToReal(r) if L.is_int(r) else r) <= half))
        return SV(r)
    raise Unsupported("round()")


def bi_type(it, args, kw):
    v = args[0]
    if isinstance(v, Obj):
        return v.cls
    raise Unsupported("type()")


def bi_getattr(it, args, kw):
    try:
        return it.getattr(args[0], args[1])
    except RaiseSig:
        if len(args) > 2:
            return args[2]
        raise


def bi_callable(it, args, kw):
    return isinstance(it.force(args[0]), (Closure, Builtin, BoundMethod, ClassV))


class Counter_:
    def __init__(self, n=0):
        self.n = n


BUILTINS = {}
for _n, _f in [("len", bi_len), ("range", bi_range), ("sorted", bi_sorted), ("min", bi_min), ("max", bi_max), ("sum", bi_sum), ("map", bi_map),
               ("filter", bi_filter), ("abs", bi_abs), ("enumerate", bi_enumerate), ("zip", bi_zip),
               ("reversed", bi_reversed), ("next", bi_next), ("iter", bi_iter), ("print", bi_print), ("any", bi_any), ("all", bi_all),
               ("hash", bi_hash), ("super", bi_super), ("isinstance", bi_isinstance), ("round", bi_round), ("type", bi_type), ("getattr", bi_getattr),
               ("callable", bi_callable), ("repr", bi_str)]:
    BUILTINS[_n] = Builtin(_n, _f)
BUILTINS["list"] = TypeTag("list", lambda it, v: isinstance(v, (PList, SSeq)), bi_list)
BUILTINS["tuple"] = TypeTag("tuple", lambda it, v: isinstance(v, tuple), bi_tuple)
BUILTINS["set"] = TypeTag("set", lambda it, v: isinstance(v, PSet), bi_set)
BUILTINS["dict"] = TypeTag("dict", lambda it, v: isinstance(v, PDict) or getattr(v, "is_dict", False), bi_dict)
BUILTINS["int"] = TypeTag("int", _is_intlike, bi_int)
BUILTINS["float"] = TypeTag("float", lambda it, v: isinstance(v, (Fraction, float)) or (isinstance(v, SV) and L.is_real(v.t)), bi_float)
BUILTINS["str"] = TypeTag("str", lambda it, v: isinstance(v, (str, SymStr)), bi_str)
BUILTINS["bool"] = TypeTag("bool", lambda it, v: isinstance(v, bool) or (isinstance(v, SV) and L.is_bool(v.t)), lambda it, a, k: truth(it, a[0]) if a else False)
BUILTINS["object"] = TypeTag("object", lambda it, v: True)
BUILTINS["any_"] = BUILTINS["any"]
for _e in ("Exception", "ValueError", "TypeError", "IndexError", "KeyError", "NotImplementedError", "ZeroDivisionError", "StopIteration", "AttributeError",
           "AssertionError", "RuntimeError", "OverflowError"):
    BUILTINS[_e] = ExcClass(_e)
BUILTINS["True"], BUILTINS["False"], BUILTINS["None"] = True, False, None


# ===================================================================== attributes of built-in values
def _m(name, fn):
    return Builtin(name, fn)


def builtin_getattr(it: Interp, v, name):
    if isinstance(v, PList):
        return plist_attr(it, v, name)
    if isinstance(v, SSeq):
        return sseq_attr(it, v, name)
    if isinstance(v, PSet):
        if name == "add":
            return _m("set.add", lambda it, a, k: set_add(it, v, a[0]))
        if name == "copy":
            return _m("set.copy", lambda it, a, k: PSet(v.elems))
    if isinstance(v, PDict):
        return pdict_attr(it, v, name)
    if isinstance(v, NdArr):
        return ndarr_attr(it, v, name)
    if isinstance(v, tuple):
        if name == "__getitem__":
            return _m("tuple.__getitem__", lambda it, a, k: getitem(it, v, a[0]))
        if name == "index":
            return _m("tuple.index", lambda it, a, k: plist_index(it, v, a[0]))
        if name == "count":
            return _m("tuple.count", lambda it, a, k: sum(1 for e in v if truth(it, values_equal(it, e, a[0]))))
    if isinstance(v, ExcV):
        if name == "args":
            return v.args
    if isinstance(v, (Closure, BoundMethod, Builtin)):
        if name == "__name__":
            return getattr(v, "name", "<fn>")
    if isinstance(v, (str, SymStr)):
        if name in ("format", "join", "strip", "lower", "upper"):
            return _m("str." + name, lambda it, a, k: SymStr())
    if isinstance(v, (SV, int, Fraction)) and not isinstance(v, bool) and name == "is_integer":
        def is_integer(it, a, k):
            if isinstance(v, SV):
                return True if L.is_int(v.t) else SV(z3.ToReal(z3.ToInt(v.t)) == v.t)
            return Fraction(v).denominator == 1
        return _m("float.is_integer", is_integer)
    if isinstance(v, ItemV):
        raise Unsupported(f"OPACITY: attribute '{name}' of an item")
    if isinstance(v, GenResult):
        pass
    if isinstance(v, TypeTag) and name == "__name__":
        return v.name
    raise Unsupported(f"attribute '{name}' of {type(v).__name__}")


def plist_index(it, elems, x):
    for k, e in enumerate(elems if not isinstance(elems, PList) else elems.elems):
        if truth(it, values_equal(it, e, x)):
            return k
    raise RaiseSig(ExcV("ValueError", ("not in list",)))


def plist_attr(it, v: PList, name):
    if name == "append":
        return _m("list.append", lambda it, a, k: v.elems.append(a[0]))
    if name == "extend":
        return _m("list.extend", lambda it, a, k: v.elems.extend(iterate(it, a[0])))
    if name == "insert":
        def ins(it, a, k):
            i = a[0]
            if isinstance(i, SV):
                i = _clamp(it, i, len(v.elems), 0)
            v.elems.insert(i, a[1])
        return _m("list.insert", ins)
    if name == "pop":
        def pop(it, a, k):
            if not v.elems:
                raise RaiseSig(ExcV("IndexError", ("pop from empty list",)))
            i = norm_index(it, a[0], len(v.elems)) if a else len(v.elems) - 1
            return v.elems.pop(i)
        return _m("list.pop", pop)
    if name == "remove":
        def rem(it, a, k):
            del v.elems[plist_index(it, v, a[0])]
        return _m("list.remove", rem)
    if name == "index":
        return _m("list.index", lambda it, a, k: plist_index(it, v, a[0]))
    if name == "copy":
        return _m("list.copy", lambda it, a, k: PList(v.elems))
    if name == "reverse":
        return _m("list.reverse", lambda it, a, k: v.elems.reverse())
    if name == "clear":
        return _m("list.clear", lambda it, a, k: v.elems.clear())
    if name == "count":
        return _m("list.count", lambda it, a, k: sum(1 for e in v.elems if truth(it, values_equal(it, e, a[0]))))
    if name == "sort":
        def srt(it, a, k):
            rev = k.get("reverse", False)
            v.elems[:] = sym_sorted(it, list(v.elems), _key_fn(it, k), rev)
        return _m("list.sort", srt)
    if name == "__getitem__":
        return _m("list.__getitem__", lambda it, a, k: getitem(it, v, a[0]))
    if name == "__len__":
        return _m("list.__len__", lambda it, a, k: len(v.elems))
    raise Unsupported(f"list.{name}")


def sseq_attr(it, v: SSeq, name):
    if name == "append":
        def app(it, a, k):
            if v.frozen:
                raise Unsupported("FRAME: append to a sequence that belongs to the caller / is being iterated")
            x = a[0]
            v.arr = z3.Store(v.arr, v.hi, x.t)
            v.hi = z3.simplify(v.hi + 1)
            it.assume(L.unfold_right(v.arr, v.lo, v.hi))
        return _m("list.append", app)
    if name == "__getitem__":
        return _m("list.__getitem__", lambda it, a, k: getitem(it, v, a[0]))
    if name == "copy":
        return _m("list.copy", lambda it, a, k: SSeq(v.arr, v.lo, v.hi, v.kind, v.name))
    if name == "keys" and getattr(v, "is_dict", False):
        return _m("dict.keys", lambda it, a, k: v)
    raise Unsupported(f"method {name} on a symbolic-length sequence")


def pdict_attr(it, v: PDict, name):
    if name == "keys":
        return _m("dict.keys", lambda it, a, k: PList(v.keys))
    if name == "values":
        return _m("dict.values", lambda it, a, k: PList(v.vals))
    if name == "items":
        return _m("dict.items", lambda it, a, k: PList([(x, y) for x, y in zip(v.keys, v.vals)]))
    if name == "__getitem__":
        return _m("dict.__getitem__", lambda it, a, k: getitem(it, v, a[0]))
    if name == "get":
        def get(it, a, k):
            for kk, vv in zip(v.keys, v.vals):
                if truth(it, values_equal(it, kk, a[0])):
                    return vv
            return a[1] if len(a) > 1 else None
        return _m("dict.get", get)
    if name == "pop":
        def pop(it, a, k):
            for i, kk in enumerate(v.keys):
                if truth(it, values_equal(it, kk, a[0])):
                    del v.keys[i]
                    return v.vals.pop(i)
            if len(a) > 1:
                return a[1]
            raise RaiseSig(ExcV("KeyError"))
        return _m("dict.pop", pop)
    if name == "copy":
        def cp(it, a, k):
            d = PDict()
            d.keys, d.vals = list(v.keys), list(v.vals)
            return d
        return _m("dict.copy", cp)
    raise Unsupported(f"dict.{name}")


# ===================================================================== numpy model
def _as_numlist(it, x):
    out = []
    for e in iterate(it, x):
        if isinstance(e, ItemV):
            raise OpacityViolation("OPACITY: item stored into a numeric array")
        if isinstance(e, (PList, tuple, NdArr)):
            raise Unsupported("multi-dimensional array")
        out.append(e)
    return out


def np_zeros(it, args, kw):
    n = args[0]
    if isinstance(n, SV) and L.is_int(n.t):
        u = it.unique_int(n.t)
        if u is not None:
            n = u
    if not isinstance(n, int):
        if isinstance(n, SV):
            raise Unsupported("np.zeros with a symbolic length")
        raise RaiseSig(ExcV("TypeError", ("zeros",)))
    it.trust("numpy.zeros(n): fresh array of n zeros")
    a = NdArr([0] * n)
    dt = kw.get("dtype", args[1] if len(args) > 1 else None)
    if dt is not None:
        eps = getattr(dt, "rel_eps", None)
        if eps is None and not (isinstance(dt, TypeTag) and dt.name in ("float", "float64")):
            raise Unsupported("numpy.zeros with a dtype the engine does not model")
        if eps:
            # a narrower float type: every value stored into the array is rounded, with a relative error up to eps (A1 does not cover it)
            it.trust(f"numpy {dt.name}: a stored value is rounded with relative error <= {eps}")
            a.rel_eps = eps
            it.approximate = True          # the engine's result on this path is an over-approximation (any rounding within the bound), not a prediction
    return a


def _narrow_float(name, eps):
    t = TypeTag(name, lambda it, v: False)
    t.rel_eps = eps
    return t


def np_array(it, args, kw):
    it.trust("numpy.array(x) / numpy.asarray(x): fresh array with the elements of x (a copy)")
    r = NdArr(_as_numlist(it, args[0]))
    if getattr(args[0], "rel_eps", None):
        r.rel_eps = args[0].rel_eps
    dt = kw.get("dtype", args[1] if len(args) > 1 else None)
    if dt is not None:
        eps = getattr(dt, "rel_eps", None)
        if eps is None and not (isinstance(dt, TypeTag) and dt.name in ("float", "float64")):
            raise Unsupported("numpy.array with a dtype the engine does not model")
        if eps:
            it.trust(f"numpy {dt.name}: a stored value is rounded with relative error <= {eps}")
            r.rel_eps = eps
            it.approximate = True
            for k in range(r.n):          # conversion rounds every element
                setitem(it, r, k, r.tolist()[k])
    return r


def np_append(it, args, kw):
    it.trust("numpy.append(a, b): fresh array, a followed by b")
    a = _as_numlist(it, args[0])
    b = _as_numlist(it, args[1]) if isinstance(args[1], (NdArr, PList, tuple)) else [args[1]]
    r = NdArr(a + b)
    if getattr(args[0], "rel_eps", None):
        r.rel_eps = args[0].rel_eps
    return r


def np_floor(it, args, kw):
    x = args[0]
    if isinstance(x, SV):
        return x if L.is_int(x.t) else SV(z3.ToInt(x.t))
    if isinstance(x, float):
        return x
    import math
    return math.floor(x)


def np_ceil(it, args, kw):
    x = args[0]
    if isinstance(x, SV):
        return x if L.is_int(x.t) else SV(-z3.ToInt(-x.t))
    if isinstance(x, float):
        return x
    import math
    return math.ceil(x)


def np_isclose(it, args, kw):
    it.trust("numpy.isclose(a, b): |a-b| <= atol + rtol*|b| with the default tolerances 1e-8, 1e-5")
    for u, w in ((args[0], args[1]), (args[1], args[0])):
        if isinstance(u, float) and u in (INF, -INF):
            return isinstance(w, float) and w == u        # an infinity is close only to itself
    x, y = term_of(args[0]), term_of(args[1])
    rt, at = norm_num(kw.get("rtol", Fraction(1, 10**5))), norm_num(kw.get("atol", Fraction(1, 10**8)))
    absf = lambda t: z3.If(t >= 0, t, -t)
    return SV(absf(_real(x) - _real(y)) <= L.to_z3(at) + L.to_z3(rt) * absf(_real(y)))


def ndarr_binop(it, op, a, b):
    la = a.tolist() if isinstance(a, NdArr) else None
    lb = b.tolist() if isinstance(b, NdArr) else None
    if la is not None and lb is not None:
        if len(la) != len(lb):
            raise RaiseSig(ExcV("ValueError", ("shapes",)))
        return NdArr([binop(it, op, x, y) for x, y in zip(la, lb)])
    if la is not None:
        return NdArr([binop(it, op, x, b) for x in la])
    return NdArr([binop(it, op, a, y) for y in lb])


def ndarr_attr(it, v: NdArr, name):
    if name == "sort":
        def srt(it, a, k):
            it.trust("ndarray.sort(): in-place ascending sort")
            r = sym_sorted(it, v.tolist(), lambda x: x, False)
            for i, x in enumerate(r):
                v.set(i, x)
        return _m("ndarray.sort", srt)
    if name == "__getitem__":
        return _m("ndarray.__getitem__", lambda it, a, k: getitem(it, v, a[0]))
    if name == "sum":
        return _m("ndarray.sum", lambda it, a, k: bi_sum(it, [v], {}))
    if name == "tolist":
        return _m("ndarray.tolist", lambda it, a, k: PList(v.tolist()))
    if name == "tobytes":
        # the raw bytes of the array: a hashable value that is equal exactly when the stored numbers are equal, element by element
        return _m("ndarray.tobytes", lambda it, a, k: ("bytes",) + tuple(v.tolist()))
    if name == "copy":
        return _m("ndarray.copy", lambda it, a, k: NdArr(v.tolist()))
    if name == "size":
        return v.n
    if name == "shape":
        return (v.n,)
    raise Unsupported(f"ndarray.{name}")


# ===================================================================== modelled modules
def modelled_module(it: Interp, name):
    import sys as _sys
    if name == "numpy":
        m = ModuleV("numpy")
        m.attrs.update({"zeros": Builtin("np.zeros", np_zeros), "array": Builtin("np.array", np_array), "asarray": Builtin("np.asarray", np_array), "append": Builtin("np.append", np_append),
                        "isclose": Builtin("np.isclose", np_isclose), "floor": Builtin("np.floor", np_floor), "ceil": Builtin("np.ceil", np_ceil), "inf": INF,
                        "ndarray": TypeTag("ndarray", lambda it, v: isinstance(v, NdArr)), "int64": BUILTINS["int"], "float64": BUILTINS["float"],
                        "float32": _narrow_float("float32", Fraction(1, 2 ** 24)), "float16": _narrow_float("float16", Fraction(1, 2 ** 11)),
                        "sort": Builtin("np.sort", lambda it, a, k: NdArr(sym_sorted(it, _as_numlist(it, a[0]), lambda x: x, False)))})
        return m
    if name == "math":
        m = ModuleV("math")
        def isclose(it, a, k):
            it.trust("math.isclose(a, b): |a-b| <= max(rel_tol*max(|a|,|b|), abs_tol) with the default tolerances")
            x, y = term_of(a[0]), term_of(a[1])
            rel = k.get("rel_tol", Fraction(1, 10**9))
            ab = k.get("abs_tol", 0)
            absf = lambda t: z3.If(t >= 0, t, -t)
            mx = z3.If(absf(x) >= absf(y), absf(x), absf(y))
            return SV(z3.Or(absf(x - y) <= L.to_z3(norm_num(rel)) * mx, absf(x - y) <= L.to_z3(norm_num(ab))))
        m.attrs.update({"floor": Builtin("math.floor", np_floor), "ceil": Builtin("math.ceil", np_ceil), "inf": INF, "isclose": Builtin("math.isclose", isclose)})
        return m
    if name == "sys":
        m = ModuleV("sys")
        m.attrs.update({"maxsize": _sys.maxsize})
        return m
    if name == "logging":
        m = ModuleV("logging")
        lg = LoggerV()
        m.attrs.update({"getLogger": Builtin("logging.getLogger", lambda it, a, k: lg), "info": Builtin("logging.info", _noop), "debug": Builtin("logging.debug", _noop),
                        "warning": Builtin("logging.warning", _noop), "INFO": 20, "DEBUG": 10, "WARNING": 30, "StreamHandler": Builtin("x", lambda it, a, k: lg)})
        return m
    if name == "time":
        m = ModuleV("time")

        def perf_counter(it, a, k):
            it.trust("time.perf_counter(): an unconstrained value at every read (arbitrary clock)")
            it.clock_reads += 1
            t = L.fresh("clock", L.RealS)
            return ClockV(t)
        m.attrs["perf_counter"] = Builtin("time.perf_counter", perf_counter)
        return m
    if name in ("typing", "abc", "numbers", "dataclasses", "pathlib", "collections", "copy", "itertools", "heapq", "random", "doctest"):
        return simple_module(it, name)
    if name == "mip":
        from . import mipmodel
        return mipmodel.module(it)
    return None


def _noop(it, a, k):
    return None


class LoggerV:
    """logging has no semantic effect (A5): every method is a no-op and its arguments were evaluated without effect"""
    def vc_getattr(self, it, name):
        if name in ("info", "debug", "warning", "error", "setLevel", "addHandler", "critical"):
            return Builtin("logger." + name, _noop)
        if name in ("level", "handlers"):
            return 0
        raise Unsupported("logger." + name)


class ClockV(SV):
    """a clock reading; tainted so that the discipline checker can see where it flows"""
    pass


def simple_module(it, name):
    m = ModuleV(name)
    if name == "typing":
        tt = TypeTag("typing", lambda it, v: True)
        for n in ("Any", "List", "Tuple", "Callable", "Iterator", "Generator", "Dict", "Set", "Optional", "Union", "Iterable", "Sequence"):
            m.attrs[n] = tt
    elif name == "abc":
        m.attrs["ABC"] = ClassV("ABC", [], {}, m)
        m.attrs["abstractmethod"] = Builtin("abstractmethod", lambda it, a, k: a[0])
    elif name == "numbers":
        m.attrs["Number"] = TypeTag("Number", _is_number)
    elif name == "dataclasses":
        m.attrs["dataclass"] = Builtin("dataclass", lambda it, a, k: a[0])
    elif name == "itertools":
        def count(it, a, k):
            return Counter_(a[0] if a else 0)

        def permutations(it, a, k):
            it.trust("itertools.permutations: all orderings in lexicographic index order")
            return PList([tuple(p) for p in _it.permutations(iterate(it, a[0]), *(a[1:]))])

        def combinations(it, a, k):
            it.trust("itertools.combinations: all index-increasing sub-tuples in lexicographic order")
            return PList([tuple(p) for p in _it.combinations(iterate(it, a[0]), a[1])])

        def product(it, a, k):
            rep = k.get("repeat", 1)
            return PList([tuple(p) for p in _it.product(*[iterate(it, x) for x in a], repeat=rep)])

        def chain(it, a, k):
            out = []
            for x in a:
                out.extend(iterate(it, x))
            return PList(out)
        m.attrs.update({"count": Builtin("itertools.count", count), "permutations": Builtin("itertools.permutations", permutations),
                        "combinations": Builtin("itertools.combinations", combinations), "product": Builtin("itertools.product", product),
                        "chain": Builtin("itertools.chain", chain)})
    elif name == "heapq":
        def heappush(it, a, k):
            it.trust("heapq: modelled as a list kept sorted by the tuple order; heappop returns the least entry, heap[0] is the least entry "
                     "(iteration order over the raw heap list is treated as the sorted order)")
            h, x = a
            pos = len(h.elems)
            while pos > 0 and truth(it, compare(it, ast.Lt(), x, h.elems[pos - 1])):
                pos -= 1
            h.elems.insert(pos, x)

        def heappop(it, a, k):
            h = a[0]
            if not h.elems:
                raise RaiseSig(ExcV("IndexError", ("index out of range",)))
            return h.elems.pop(0)
        m.attrs.update({"heappush": Builtin("heapq.heappush", heappush), "heappop": Builtin("heapq.heappop", heappop)})
    elif name == "copy":
        def deepcopy(it, a, k):
            it.trust("copy.deepcopy: structural copy")
            return deep_copy(it, a[0])
        m.attrs.update({"deepcopy": Builtin("copy.deepcopy", deepcopy), "copy": Builtin("copy.copy", lambda it, a, k: shallow_copy(it, a[0]))})
    elif name == "collections":
        m.attrs["Counter"] = Builtin("collections.Counter", lambda it, a, k: CounterV(iterate(it, a[0]) if a else []))
    elif name == "pathlib":
        m.attrs["Path"] = Builtin("Path", lambda it, a, k: PathV())
    return m


class CounterV:
    """collections.Counter as a multiset (list of elements); only construction, subtraction, truthiness and elements() are modelled"""
    def __init__(self, elems):
        self.elems = list(elems)

    def vc_binop(self, it, op, other, flip):
        if not isinstance(op, ast.Sub) or flip or not isinstance(other, CounterV):
            raise Unsupported("Counter operation other than subtraction")
        it.trust("collections.Counter: multiset difference (counts never go below zero)")
        rest = list(other.elems)
        out = []
        for x in self.elems:
            for k, y in enumerate(rest):
                if truth(it, values_equal(it, x, y)):
                    del rest[k]
                    break
            else:
                out.append(x)
        return CounterV(out)

    def vc_len(self, it):
        return len(self.elems)

    def vc_getattr(self, it, name):
        if name == "elements":
            return Builtin("Counter.elements", lambda it, a, k: PList(self.elems))
        raise Unsupported("Counter." + name)


class PathV:
    def vc_getattr(self, it, name):
        if name == "parent":
            return self
        if name == "read_text":
            return Builtin("read_text", lambda it, a, k: "0.0")
        raise Unsupported("Path." + name)

    def vc_binop(self, it, op, other, flip):
        return self


def deep_copy(it, v):
    if isinstance(v, PList):
        return PList([deep_copy(it, x) for x in v.elems])
    if isinstance(v, tuple):
        return tuple(deep_copy(it, x) for x in v)
    if isinstance(v, NdArr):
        return NdArr(v.tolist())
    if isinstance(v, PDict):
        d = PDict()
        d.keys, d.vals = [deep_copy(it, x) for x in v.keys], [deep_copy(it, x) for x in v.vals]
        return d
    if isinstance(v, PSet):
        return PSet([deep_copy(it, x) for x in v.elems])
    if isinstance(v, (SV, ItemV, int, float, Fraction, str, bool)) or v is None:
        return v
    h = getattr(v, "vc_deepcopy", None)
    if h is not None:
        return h(it)
    raise Unsupported(f"deepcopy of {type(v).__name__}")


def shallow_copy(it, v):
    if isinstance(v, PList):
        return PList(v.elems)
    if isinstance(v, NdArr):
        return NdArr(v.tolist())
    raise Unsupported("copy.copy")


# ===================================================================== comprehension over a symbolic-length sequence
def sseq_comprehension(it: Interp, e, env, mod, src: SSeq):
    """[x for x in s if P(x)] on a symbolic-length sequence: supported only through the hook a contract installs"""
    hook = it.hooks.get("sseq_comprehension")
    if hook is not None:
        return hook(it, e, env, mod, src)
    g = e.generators[0]
    if isinstance(e, ast.GeneratorExp) and not g.ifs and isinstance(g.target, ast.Name):
        # (f(x) for x in s) with a boolean body: kept as a quantified formula for all()/any()
        k = L.fresh("k", L.IntS)
        cenv = Env(env)
        cenv.vars[g.target.id] = src.wrap(z3.Select(src.arr, k))
        body = it.eval(e.elt, cenv, mod)
        if isinstance(body, SV) and L.is_bool(body.t):
            return QuantGen(k, src, body.t)
        if isinstance(body, bool):
            return QuantGen(k, src, z3.BoolVal(body))
    raise Unsupported("list comprehension over a symbolic-length sequence")


class ClassWindows:
    """LIBRARY LEMMA (trusted, premises machine-checked): let s be sorted in DESCENDING order of key K, and let P1, P2, P3 be the conditions of three
    successive comprehensions [x for x in s if Pi(x)].  If P1 is upward closed in K, P3 downward closed, and every item satisfies exactly one of
    P1, P2, P3 (all three checked by the solver for arbitrary items), then the three results are the consecutive windows s[0:a], s[a:b], s[b:n].
    The hook returns the windows as the comprehensions are met; if a premise fails the construct is Unsupported (undecided, the bounded-shape contract decides)."""
    def __init__(self):
        self.src = None
        self.preds = []
        self.a = self.b = None

    def pred(self, it, e, env, mod):
        g = e.generators[0]
        if len(e.generators) != 1 or not isinstance(g.target, ast.Name) or not isinstance(e.elt, ast.Name) or e.elt.id != g.target.id or not g.ifs:
            raise Unsupported("comprehension over a symbolic-length sequence that is not a plain filter")

        def P(term):
            cenv = Env(env)
            cenv.vars[g.target.id] = ItemV(term)
            r = True
            for c in g.ifs:
                v = it.eval(c, cenv, mod)
                r = it.bool_and(r, v if isinstance(v, (bool, SV)) else truth(it, v))
            return term_of(r)
        return P

    def __call__(self, it, e, env, mod, src):
        sb = getattr(src, "sorted_by", None)
        if sb is None or sb[1] is not True or src.frozen and False:
            raise Unsupported("filter of a sequence that is not known to be sorted in descending order")
        key = sb[0]
        K = lambda t: term_of(it.call(key, [ItemV(t)]))
        P = self.pred(it, e, env, mod)
        if self.src is None:
            self.src = (src.arr, src.lo, src.hi)
        elif not (self.src[0] is src.arr or z3.eq(self.src[0], src.arr)):
            raise Unsupported("filters of different sequences")
        arr, lo, hi = self.src
        self.preds.append(P)
        k = L.fresh("k", L.IntS)
        x, y = L.fresh("x", L.Item), L.fresh("y", L.Item)
        n = len(self.preds)
        it.trust("lemma: threshold classes of a sequence sorted by value are consecutive windows (premises checked by the solver)")
        if n == 1:
            if it.check(z3.And(K(x) >= K(y), P(y), z3.Not(P(x)))) != "unsat":
                raise Unsupported("first filter is not upward closed in the sort key")
            self.a = L.fresh("cls_a", L.IntS)
            it.assume(z3.And(lo <= self.a, self.a <= hi))
            it.assume(z3.ForAll([k], z3.Implies(z3.And(lo <= k, k < hi), P(arr[k]) == (k < self.a))))
            w = SSeq(arr, lo, self.a, src.kind, "class1")
        elif n == 2:
            self.b = L.fresh("cls_b", L.IntS)
            it.assume(z3.And(self.a <= self.b, self.b <= hi))
            it.assume(z3.ForAll([k], z3.Implies(z3.And(lo <= k, k < hi), P(arr[k]) == z3.And(self.a <= k, k < self.b))))
            w = SSeq(arr, self.a, self.b, src.kind, "class2")
        elif n == 3:
            P1, P2, P3 = self.preds
            if it.check(z3.And(K(x) <= K(y), P3(y), z3.Not(P3(x)))) != "unsat":
                raise Unsupported("third filter is not downward closed in the sort key")
            one = z3.And(z3.Or(P1(x), P2(x), P3(x)), z3.Not(z3.And(P1(x), P2(x))), z3.Not(z3.And(P1(x), P3(x))), z3.Not(z3.And(P2(x), P3(x))))
            if it.check(z3.Not(one)) != "unsat":
                raise Unsupported("the three filters are not an exhaustive and exclusive classification of the items")
            it.assume(z3.ForAll([k], z3.Implies(z3.And(lo <= k, k < hi), P(arr[k]) == (self.b <= k))))
            w = SSeq(arr, self.b, hi, src.kind, "class3")
        else:
            raise Unsupported("more than three filters of the sorted sequence")
        w.sorted_by = sb
        for p in (w.lo, w.hi):
            it.assume(L.empty_range(arr, p, p))
        return w


class QuantGen:
    """a generator of booleans over a symbolic-length sequence, consumable only by all() / any()"""
    def __init__(self, k, seq, body):
        self.k, self.seq, self.body = k, seq, body

    def forall(self):
        return SV(z3.ForAll([self.k], z3.Implies(z3.And(self.seq.lo <= self.k, self.k < self.seq.hi), self.body)))

    def exists(self):
        return SV(z3.Exists([self.k], z3.And(self.seq.lo <= self.k, self.k < self.seq.hi, self.body)))
