"""Symbolic interpreter over the *real* AST of /repo (re-read on every run) -- DESIGN 3.
Path exploration by re-execution along a decision prefix; obligations are discharged where they arise."""
from __future__ import annotations
import ast, os, time, z3
from fractions import Fraction
from . import logic as L
from .values import *

SAT, UNSAT, UNKNOWN = "sat", "unsat", "unknown"


def norm_num(x):
    """engine numbers are int / Fraction / +-inf (A1: mathematical arithmetic)"""
    if isinstance(x, bool) or isinstance(x, int):
        return x
    if isinstance(x, float):
        if x in (INF, -INF) or x != x:
            return x
        f = Fraction(x)
        return int(f) if f.denominator == 1 else f
    if isinstance(x, Fraction):
        return int(x) if x.denominator == 1 else x
    return x


class ObResult:
    __slots__ = ("id", "status", "time", "detail", "model", "kind", "path", "line")

    def __init__(self, id, status, time_=0.0, detail="", model=None, kind="", path=(), line=0):
        self.id, self.status, self.time, self.detail, self.model, self.kind, self.path, self.line = id, status, time_, detail, model, kind, tuple(path), line


class LoopSpec:
    """invariant attached to a loop of the function under contract.
    pattern: text that must occur in ast.unparse(loop header) (guard: if the source no longer matches, the
    contract does not attach and the obligations are undecided, never an alarm).
    inv(ctx) -> list of (name, z3 formula).  hints(ctx) -> list of ('unfold_right'|'unfold_left'|'empty', arr, lo, hi)."""
    def __init__(self, pattern, inv, hints=None, name=None, sorts=None):
        self.pattern, self.inv, self.hints, self.name = pattern, inv, hints, name
        self.sorts = sorts or {}          # local name -> z3 sort (or tuple of sorts) used when the loop rule havocs it
        self.kind = None                  # 'for' / 'while' when the loop is addressed by header


class Ctx:
    """what a contract clause may look at: current locals, entry arguments, ghost loop index, engine helpers"""
    def __init__(self, it, env, args, idx=None, seq=None, extra=None):
        self.it, self.env, self.args, self.idx, self.seq = it, env, args, idx, seq
        self.extra = extra or {}

    def __getitem__(self, name):
        try:
            return self.env.lookup(name)
        except KeyError:
            raise Unsupported(f"contract refers to local '{name}' which does not exist in the current source (renamed?)")

    def has(self, name):
        return self.env.has(name)

    def t(self, name):
        """z3 term of a numeric local"""
        return term_of(self[name])

    def arg(self, name):
        return self.args[name]


class Interp:
    def __init__(self, repo, prefix=(), timeout_ms=20000, unroll_limit=64):
        self.repo = repo
        self.modules = {}
        z3.set_param("smt.mbqi", False)      # obligations are discharged by E-matching; a 'sat' direction with quantifiers answers 'unknown' at once
        self.solver = z3.Solver()
        self.solver.set("timeout", timeout_ms)
        self.timeout_ms = timeout_ms
        self.prefix = list(prefix)
        self.pos = 0
        self.forks = []
        self.obs: list[ObResult] = []
        self.trusted = set()
        self.contracts = {}            # qualname -> FunctionContract used at call sites (modular verification)
        self.loopspecs = {}            # (qualname, ordinal) -> LoopSpec
        self.callspecs = {}            # (qualname, callee-name, ordinal) -> fn(ctx, args, kwargs) -> [(name, formula)]
        self.unroll_limit = unroll_limit
        self.frames = []               # stack of (closure, env, args) for contract lookups
        self.facts = []                # every assumption on this path (for reporting)
        self.nqueries = 0
        self.solver_time = 0.0
        self.root = None               # qualname of the function under verification (its own contract is not used at its entry)
        self.clock_reads = 0
        self.steps = 0
        self.max_steps = 400000
        self.cur_line = 0
        self.hooks = {}                # name -> callable, engine extension points used by contracts
        self.attached = set()          # loop specs that attached on this path
        self.inline_only = False
        self.modular_calls = 0
        self.callee_frames = {}        # simple callee name -> set of argument positions its contract allows it to write
        self.snapshot_yields = True
        self.lazy_generators = False    # True: generator functions run as coroutines (a value is produced when the consumer asks for it)
        self.live_gens = []
        self.opacity_events = []
        self.mbqi_fallback_ms = 0
        self.feas_rlimit = int(os.environ.get('PYVC_FEAS_RLIMIT', '100000'))

    # ------------------------------------------------------------------ solver
    def assume(self, f):
        if f is True or f is None:
            return
        if f is False:
            raise PathEnd()
        f = z3.simplify(f) if z3.is_expr(f) else f
        if z3.is_true(f):
            return
        self.solver.add(f)
        self.facts.append(f)

    def check(self, extra=None):
        t0 = time.time()
        self.nqueries += 1
        if extra is not None:
            self.solver.push()
            self.solver.add(extra)
        r = self.solver.check()
        if extra is not None:
            self.solver.pop()
        self.solver_time += time.time() - t0
        if os.environ.get("PYVC_TRACE") and time.time() - t0 > 1:
            print(f"[slow query {time.time()-t0:.1f}s -> {r}] line {self.cur_line} extra={str(extra)[:200]}")
        return SAT if r == z3.sat else UNSAT if r == z3.unsat else UNKNOWN

    def decide(self, options):
        """multi-way fork: options is a list of z3 conditions (exhaustive); returns the index taken on this path."""
        if self.pos < len(self.prefix):
            d = self.prefix[self.pos]
            self.pos += 1
            self.assume(options[d])
            return d
        feas = []
        # feasibility pruning only: 'unknown' keeps the branch (sound), so a small budget suffices; the budget is a z3 resource
        # limit (deterministic), not wall-clock, so verdicts do not flip when the machine is loaded
        self.solver.set("rlimit", self.feas_rlimit)
        try:
            for k, c in enumerate(options):
                c = z3.simplify(c)
                if z3.is_false(c):
                    continue
                if z3.is_true(c) or self.check(c) != UNSAT:
                    feas.append(k)
        finally:
            self.solver.set("rlimit", 0)
        if not feas:
            raise PathEnd()
        base = list(self.prefix)
        for k in feas[1:]:
            self.forks.append(base + [k])
        d = feas[0]
        self.prefix.append(d)
        self.pos += 1
        self.assume(options[d])
        return d

    def branch(self, c):
        if isinstance(c, bool):
            return c
        c = z3.simplify(c)
        if z3.is_true(c):
            return True
        if z3.is_false(c):
            return False
        return self.decide([c, z3.Not(c)]) == 0

    def prove(self, ob_id, goal, kind="assert", detail=""):
        """discharge one obligation on the current path: pc /\\ not goal must be unsat.  Afterwards goal is assumed."""
        t0 = time.time()
        if isinstance(goal, bool):
            goal = z3.BoolVal(goal)
        g = z3.simplify(goal)
        if z3.is_true(g):
            self.obs.append(ObResult(ob_id, "proved", 0.0, detail, kind=kind, path=self.prefix[:self.pos], line=self.cur_line))
            return True
        r = self.check(z3.And([z3.Not(goal)] + self.seed_ground_terms(goal)))
        dt = time.time() - t0
        if r == UNSAT:
            self.obs.append(ObResult(ob_id, "proved", dt, detail, kind=kind, path=self.prefix[:self.pos], line=self.cur_line))
            if kind != "post":
                self.assume(goal)
            return True
        m = None
        if r == SAT:
            self.solver.push()
            self.solver.add(z3.Not(goal))
            self.solver.check()
            m = self.solver.model()
            self.solver.pop()
        elif r == UNKNOWN and self.mbqi_fallback_ms:
            # E-matching gave up: ask for a genuine counter-model with model-based quantifier instantiation
            s2 = z3.Solver()
            s2.set("smt.mbqi", True)
            s2.set("timeout", self.mbqi_fallback_ms)
            s2.add(self.solver.assertions())
            s2.add(z3.Not(goal))
            t1 = time.time()
            r2 = s2.check()
            self.solver_time += time.time() - t1
            dt = time.time() - t0
            if r2 == z3.unsat:
                self.obs.append(ObResult(ob_id, "proved", dt, detail + " (mbqi)", kind=kind, path=self.prefix[:self.pos], line=self.cur_line))
                self.assume(goal)
                return True
            if r2 == z3.sat:
                r, m = SAT, s2.model()
        reason = self.solver.reason_unknown() if r == UNKNOWN else ""
        if r == UNKNOWN and "incomplete" in reason:
            # quantifier instantiation saturated without reaching a contradiction: the obligation FAILS (the standard verdict of a
            # deductive verifier); z3's candidate model is attached.  Timeouts / resource limits are never treated this way.
            try:
                self.solver.push()
                self.solver.add(z3.Not(goal))
                self.solver.check()
                m = self.solver.model()
            except z3.Z3Exception:
                m = None
            finally:
                self.solver.pop()
            self.obs.append(ObResult(ob_id, "refuted", dt, (detail + " " if detail else "") + f"not discharged: instantiation saturated without contradiction ({reason}); candidate counter-model attached",
                                     model=m, kind=kind, path=self.prefix[:self.pos], line=self.cur_line))
        elif r == SAT:
            self.obs.append(ObResult(ob_id, "refuted", dt, detail, model=m, kind=kind, path=self.prefix[:self.pos], line=self.cur_line))
        else:
            self.obs.append(ObResult(ob_id, "undecided", dt, "solver returned unknown (" + self.solver.reason_unknown() + ") " + detail,
                                     kind=kind, path=self.prefix[:self.pos], line=self.cur_line))
        # a failed / undecided obligation is NOT assumed afterwards: later obligations on this path are then checked on their own merits
        # (otherwise the first failure would mask, by vacuity, the failures it causes downstream)
        return False

    def trust(self, name):
        self.trusted.add(name)

    def seed_ground_terms(self, goal):
        """E-matching only sees ground terms that occur OUTSIDE quantifiers.  A ground array read such as sums[n-1] that the goal mentions only inside a
        quantifier body would never be used as an instance; naming it (c = sums[n-1], c fresh) puts it into the E-graph.  Logically a no-op."""
        out, seen = [], set()

        def has_var(t):
            if z3.is_var(t):
                return True
            return any(has_var(ch) for ch in t.children()) if z3.is_app(t) else (z3.is_quantifier(t) and True)

        def walk(t, inside):
            if z3.is_quantifier(t):
                walk(t.body(), True)
                return
            if not z3.is_app(t):
                return
            if inside and t.decl().kind() == z3.Z3_OP_SELECT and not has_var(t):
                key = t.get_id()
                if key not in seen:
                    seen.add(key)
                    out.append(L.fresh("gt", t.sort()) == t)
                return
            for ch in t.children():
                walk(ch, inside)
        try:
            walk(goal, False)
        except Exception:
            return []
        return out[:40]

    def unique_int(self, t):
        """the concrete value of an integer term if the path condition determines it, else None"""
        t = z3.simplify(t)
        if z3.is_int_value(t):
            return t.as_long()
        try:
            if self.check() != SAT:
                return None
            v = self.solver.model().eval(t, model_completion=True)
            if z3.is_int_value(v) and self.check(t != v) == UNSAT:
                return v.as_long()
        except z3.Z3Exception:
            pass
        return None

    # ------------------------------------------------------------------ modules
    def load_module(self, modname):
        if modname in self.modules:
            return self.modules[modname]
        from . import lib
        m = lib.modelled_module(self, modname)
        if m is not None:
            self.modules[modname] = m
            return m
        rel = modname.replace(".", "/")
        root = self.repo if not modname.startswith("spec.") else os.path.dirname(os.path.dirname(os.path.abspath(__file__)))   # reference transcriptions live in /verif/spec
        path = os.path.join(root, rel + ".py")
        if not os.path.exists(path):
            path = os.path.join(root, rel, "__init__.py")
            if not os.path.exists(path):
                raise Unsupported(f"module {modname} is neither modelled nor part of the repository")
        src = open(path).read()
        tree = ast.parse(src, filename=path)
        mod = ModuleV(modname)
        mod.path = os.path.relpath(path, root)
        mod.env = Env()
        mod.env.vars = mod.attrs
        mod.attrs["__name__"] = modname
        self.modules[modname] = mod
        self.index_loops(tree, mod)
        for st in tree.body:
            if isinstance(st, ast.If) and "__name__" in ast.unparse(st.test):
                continue
            try:
                self.exec_stmt(st, mod.env, mod)
            except Unsupported as e:
                # a top-level statement we do not model: the names it would define stay undefined (-> Unsupported on use)
                mod.attrs.setdefault("__unsupported__", []).append(str(e))
        return mod

    def index_loops(self, tree, mod):
        """ordinal of every loop inside every function (source order), for attaching loop contracts"""
        def visit(node, qual):
            for ch in ast.iter_child_nodes(node):
                if isinstance(ch, (ast.FunctionDef, ast.ClassDef)):
                    q = (qual + "." if qual else "") + ch.name
                    if isinstance(ch, ast.FunctionDef):
                        n = 0
                        calls = {}
                        for sub in ast.walk(ch):
                            if isinstance(sub, (ast.For, ast.While)):
                                sub._vc_loop = (mod.path + "::" + q, n)
                                n += 1
                        for sub in _walk_in_order(ch):
                            if isinstance(sub, ast.Call):
                                nm = sub.func.attr if isinstance(sub.func, ast.Attribute) else sub.func.id if isinstance(sub.func, ast.Name) else None
                                if nm:
                                    k = calls.get(nm, 0)
                                    sub._vc_call = (mod.path + "::" + q, nm, k)
                                    calls[nm] = k + 1
                    visit(ch, q)
                else:
                    visit(ch, qual)
        visit(tree, "")

    def get_function(self, target):
        """target: 'prtpy/partitioning/greedy.py::greedy' or '...::Class.method' -> Closure"""
        path, qual = target.split("::")
        modname = path[:-3].replace("/", ".")
        if modname.endswith(".__init__"):
            modname = modname[:-9]
        mod = self.load_module(modname)
        parts = qual.split(".")
        v = mod.attrs.get(parts[0])
        if v is None:
            why = "; ".join(mod.attrs.get("__unsupported__", [])[:2])
            raise Unsupported(f"{target}: no such definition in the current source" + (f" (module statements the engine could not execute: {why})" if why else ""))
        for p in parts[1:]:
            if isinstance(v, ClassV):
                v, _ = v.lookup(p)
            else:
                v = None
            if v is None:
                raise Unsupported(f"{target}: no such definition in the current source")
        return v

    # ------------------------------------------------------------------ statements
    def exec_block(self, stmts, env, mod):
        for st in stmts:
            self.exec_stmt(st, env, mod)

    def exec_stmt(self, st, env, mod):
        self.steps += 1
        if self.steps > self.max_steps:
            raise Unsupported("step budget exhausted on one path")
        self.cur_line = getattr(st, "lineno", self.cur_line)
        m = getattr(self, "st_" + type(st).__name__, None)
        if m is None:
            raise Unsupported(f"statement {type(st).__name__} at line {st.lineno}")
        return m(st, env, mod)

    def st_Expr(self, st, env, mod):
        if isinstance(st.value, ast.Constant):
            return      # docstring
        self.eval(st.value, env, mod)

    def st_Pass(self, st, env, mod):
        pass

    def st_Assign(self, st, env, mod):
        v = self.eval(st.value, env, mod)
        for tgt in st.targets:
            self.assign(tgt, v, env, mod)

    def st_AnnAssign(self, st, env, mod):
        if st.value is not None:
            self.assign(st.target, self.eval(st.value, env, mod), env, mod)

    def st_AugAssign(self, st, env, mod):
        tgt = st.target
        if isinstance(tgt, ast.Name):
            cur = self.eval(tgt, env, mod)
            new = self.aug(st.op, cur, self.eval(st.value, env, mod))
            env.vars[tgt.id] = new
        elif isinstance(tgt, ast.Subscript):
            base = self.eval(tgt.value, env, mod)
            idx = self.eval_index(tgt.slice, env, mod)
            cur = self.getitem(base, idx)
            new = self.aug(st.op, cur, self.eval(st.value, env, mod))
            self.setitem(base, idx, new)
        elif isinstance(tgt, ast.Attribute):
            base = self.eval(tgt.value, env, mod)
            cur = self.getattr(base, tgt.attr)
            new = self.aug(st.op, cur, self.eval(st.value, env, mod))
            self.setattr(base, tgt.attr, new)
        else:
            raise Unsupported("augmented assignment target")

    def aug(self, op, cur, val):
        if isinstance(op, ast.Add) and isinstance(cur, PList):
            # list += iterable : in-place extend
            cur.elems.extend(self.iterate(val))
            return cur
        return self.binop(op, cur, val)

    def assign(self, tgt, v, env, mod):
        if isinstance(tgt, ast.Name):
            if tgt.id in env.vars.get("__nonlocal__", ()):
                e = env.parent
                while e is not None and tgt.id not in e.vars:
                    e = e.parent
                if e is None:
                    raise Unsupported("nonlocal name not found")
                e.vars[tgt.id] = v
                return
            env.vars[tgt.id] = v
        elif isinstance(tgt, (ast.Tuple, ast.List)):
            elems = self.iterate(v)
            if any(isinstance(e, ast.Starred) for e in tgt.elts):
                raise Unsupported("starred assignment")
            if len(elems) != len(tgt.elts):
                raise RaiseSig(ExcV("ValueError", ("unpack",)))
            for t, e in zip(tgt.elts, elems):
                self.assign(t, e, env, mod)
        elif isinstance(tgt, ast.Subscript):
            base = self.eval(tgt.value, env, mod)
            if isinstance(tgt.slice, ast.Slice):
                self.setslice(base, tgt.slice, v, env, mod)
            else:
                self.setitem(base, self.eval_index(tgt.slice, env, mod), v)
        elif isinstance(tgt, ast.Attribute):
            self.setattr(self.eval(tgt.value, env, mod), tgt.attr, v)
        else:
            raise Unsupported(f"assignment target {type(tgt).__name__}")

    def st_Return(self, st, env, mod):
        raise ReturnSig(self.eval(st.value, env, mod) if st.value is not None else None)

    def st_Break(self, st, env, mod):
        raise BreakSig()

    def st_Continue(self, st, env, mod):
        raise ContinueSig()

    def st_If(self, st, env, mod):
        if self.truth(self.eval(st.test, env, mod)):
            self.exec_block(st.body, env, mod)
        else:
            self.exec_block(st.orelse, env, mod)

    def st_Raise(self, st, env, mod):
        if st.exc is None:
            raise Unsupported("bare raise")
        e = self.eval(st.exc, env, mod)
        if isinstance(e, ExcClass):
            e = ExcV(e.name)
        if not isinstance(e, ExcV):
            raise Unsupported("raise of a non-exception value")
        e.line = st.lineno
        raise RaiseSig(e)

    def st_Assert(self, st, env, mod):
        if not self.truth(self.eval(st.test, env, mod)):
            raise RaiseSig(ExcV("AssertionError"))

    def st_Delete(self, st, env, mod):
        for tgt in st.targets:
            if isinstance(tgt, ast.Subscript):
                base = self.eval(tgt.value, env, mod)
                if isinstance(tgt.slice, ast.Slice):
                    raise Unsupported("del of a slice")
                self.delitem(base, self.eval_index(tgt.slice, env, mod))
            elif isinstance(tgt, ast.Name):
                env.vars.pop(tgt.id, None)
            else:
                raise Unsupported("del target")

    def st_Global(self, st, env, mod):
        raise Unsupported("global statement")

    def st_Nonlocal(self, st, env, mod):
        env.vars.setdefault("__nonlocal__", set()).update(st.names)

    def st_Import(self, st, env, mod):
        for a in st.names:
            name = a.name
            if a.asname:
                env.vars[a.asname] = self.lazy_module(name)
            else:
                top = name.split(".")[0]
                env.vars[top] = self.lazy_module(top)

    def lazy_module(self, name):
        return LazyModule(self, name)

    def st_ImportFrom(self, st, env, mod):
        if st.level:
            raise Unsupported("relative import")
        for a in st.names:
            if a.name == "*":
                m = self.load_module(st.module)
                for k, v in m.attrs.items():
                    if not k.startswith("_"):
                        env.vars[k] = v
                continue
            env.vars[a.asname or a.name] = LazyAttr(self, st.module, a.name)

    def st_FunctionDef(self, st, env, mod):
        q = getattr(env, "qual", "")
        f = Closure(st, env, mod, st.name, qualname=(q + "." if q else "") + st.name)
        for d in st.decorator_list:
            dn = ast.unparse(d)
            if dn == "classmethod":
                f.kind = "classmethod"
            elif dn == "staticmethod":
                f.kind = "staticmethod"
            elif dn in ("abstractmethod", "abc.abstractmethod"):
                pass
            else:
                raise Unsupported(f"decorator {dn}")
        env.vars[st.name] = f

    def st_ClassDef(self, st, env, mod):
        bases = [self.force(self.eval(b, env, mod)) for b in st.bases]
        cenv = Env(env)
        cenv.qual = (getattr(env, "qual", "") + "." if getattr(env, "qual", "") else "") + st.name
        cls = ClassV(st.name, bases, cenv.vars, mod)
        for s in st.body:
            if isinstance(s, ast.AnnAssign) and s.value is None:
                cls.attrs.setdefault("__annotations__", []).append(s.target.id)
                continue
            if isinstance(s, ast.AnnAssign):
                cls.attrs.setdefault("__annotations__", []).append(s.target.id)
            self.exec_stmt(s, cenv, mod)
        for name, v in list(cls.attrs.items()):
            if isinstance(v, Closure):
                v.cls = cls
        for d in st.decorator_list:
            dn = ast.unparse(d)
            if dn in ("dataclass", "dataclasses.dataclass"):
                cls.dataclass_fields = list(cls.attrs.get("__annotations__", []))
            else:
                raise Unsupported(f"class decorator {dn}")
        env.vars[st.name] = cls

    def st_Try(self, st, env, mod):
        if st.finalbody:
            raise Unsupported("try/finally")
        try:
            self.exec_block(st.body, env, mod)
        except RaiseSig as r:
            for h in st.handlers:
                if h.type is None or self.exc_matches(r.exc, self.force(self.eval(h.type, env, mod))):
                    if h.name:
                        env.vars[h.name] = r.exc
                    self.exec_block(h.body, env, mod)
                    return
            raise
        else:
            self.exec_block(st.orelse, env, mod)

    def exc_matches(self, exc, cls):
        if isinstance(cls, tuple):
            return any(self.exc_matches(exc, c) for c in cls)
        if isinstance(cls, ExcClass):
            return cls.name in ("Exception", "BaseException") or exc.cls == cls.name or cls.name in EXC_BASES.get(exc.cls, ())
        raise Unsupported("except clause with a non-exception class")

    # ---- loops
    def st_While(self, st, env, mod):
        spec = self.loop_spec(st)
        if spec is not None:
            return self.cut_while(st, env, mod, spec)
        n = 0
        while True:
            if not self.truth(self.eval(st.test, env, mod)):
                self.exec_block(st.orelse, env, mod)
                return
            try:
                self.exec_block(st.body, env, mod)
            except BreakSig:
                return
            except ContinueSig:
                pass
            n += 1
            if n > self.unroll_limit:
                raise Unsupported(f"while loop at line {st.lineno} exceeds the unrolling limit {self.unroll_limit} (unwinding assertion)")

    def st_For(self, st, env, mod):
        spec = self.loop_spec(st)
        it = self.eval(st.iter, env, mod)
        if spec is not None:
            return self.cut_for(st, env, mod, spec, it)
        if isinstance(it, SSeq):
            return self.unroll_sseq(st, env, mod, it)
        if isinstance(it, SRange) and not all(isinstance(x, int) for x in (it.start, it.stop, it.step)):
            return self.unroll_srange(st, env, mod, it)
        if isinstance(it, LazyGen):
            k = 0
            while True:
                x = it.next()
                if x is LazyGen.STOP:
                    break
                self.assign(st.target, x, env, mod)
                k += 1
                try:
                    self.exec_block(st.body, env, mod)
                except BreakSig:
                    return
                except ContinueSig:
                    pass
                if k > 100000:
                    raise Unsupported("loop too long")
            self.exec_block(st.orelse, env, mod)
            return
        elems = self.iterate(it, live=True)
        k = 0
        while k < len(elems):           # a list mutated during iteration is seen through (CPython semantics)
            self.assign(st.target, elems[k], env, mod)
            k += 1
            try:
                self.exec_block(st.body, env, mod)
            except BreakSig:
                return
            except ContinueSig:
                pass
            if k > 100000:
                raise Unsupported("loop too long")
        self.exec_block(st.orelse, env, mod)

    def unroll_sseq(self, st, env, mod, seq):
        """loop over a symbolic-length sequence without invariant: unrolled with an unwinding assertion"""
        snap = seq.snapshot()
        k = 0
        while True:
            if not self.branch(snap.lo + k < snap.hi):
                break
            if k >= min(self.unroll_limit, 8):
                raise Unsupported(f"for loop over a symbolic-length sequence at line {st.lineno} has no invariant and does not unroll within 8 iterations")
            self.assign(st.target, snap.wrap(z3.Select(snap.arr, snap.lo + k)), env, mod)
            k += 1
            try:
                self.exec_block(st.body, env, mod)
            except BreakSig:
                return
            except ContinueSig:
                pass
        self.exec_block(st.orelse, env, mod)

    def unroll_srange(self, st, env, mod, r):
        if r.step != 1:
            raise Unsupported("symbolic range with step")
        k = 0
        while True:
            cur = self.binop(ast.Add(), r.start, k)
            if not self.truth(self.compare(ast.Lt(), cur, r.stop)):
                break
            if k >= min(self.unroll_limit, 8):
                raise Unsupported(f"for loop over a symbolic range at line {st.lineno} has no invariant and does not unroll within 8 iterations")
            self.assign(st.target, cur, env, mod)
            k += 1
            try:
                self.exec_block(st.body, env, mod)
            except BreakSig:
                return
            except ContinueSig:
                pass
        self.exec_block(st.orelse, env, mod)

    def loop_spec(self, st):
        key = getattr(st, "_vc_loop", None)
        if key is None:
            return None
        header = ast.unparse(st.iter) if isinstance(st, ast.For) else ast.unparse(st.test)
        spec = self.loopspecs.get(key)
        if spec is None:
            # contracts may also address a loop by its header alone: key (function, "header:<text that must occur in the header>")
            for (fn, k), sp in self.loopspecs.items():
                if fn == key[0] and isinstance(k, str) and k.startswith("header:") and k[7:] in header and type(st).__name__.lower() == (sp.kind or type(st).__name__.lower()):
                    spec = sp
                    break
        if spec is None:
            return None
        if spec.pattern is not None and spec.pattern not in header:
            raise Unsupported(f"loop contract {key} does not attach: header '{header}' no longer matches guard '{spec.pattern}'")
        self.attached.add(key)
        return spec

    def write_set(self, st):
        names, mutated = set(), set()
        for node in ast.walk(st):
            if isinstance(node, ast.Name) and isinstance(node.ctx, (ast.Store, ast.Del)):
                names.add(node.id)
            elif isinstance(node, (ast.Subscript, ast.Attribute)) and isinstance(node.ctx, (ast.Store, ast.Del)):
                b = node.value
                while isinstance(b, (ast.Subscript, ast.Attribute)):
                    b = b.value
                if isinstance(b, ast.Name):
                    mutated.add(b.id)
            elif isinstance(node, ast.AugAssign):
                b = node.target
                while isinstance(b, (ast.Subscript, ast.Attribute)):
                    b = b.value
                if isinstance(b, ast.Name):
                    (names if isinstance(node.target, ast.Name) else mutated).add(b.id)
            elif isinstance(node, ast.Call):
                f = node.func
                if isinstance(f, ast.Attribute):
                    if f.attr in MUTATING_BINNER and node.args and isinstance(node.args[0], ast.Name):
                        mutated.add(node.args[0].id)
                    if f.attr in MUTATING_METHODS and isinstance(f.value, ast.Name):
                        mutated.add(f.value.id)
                # a repo function given a local mutable object may mutate it: conservatively havoc every Name argument
                fname = f.id if isinstance(f, ast.Name) else f.attr if isinstance(f, ast.Attribute) else None
                if fname in self.callee_frames and not (isinstance(f, ast.Attribute) and f.attr in MUTATING_BINNER):
                    # the callee has a contract with a frame clause: only the arguments it may write (by position or keyword) count
                    for pos, a in enumerate(node.args):
                        if isinstance(a, ast.Name) and pos in self.callee_frames[fname]:
                            mutated.add(a.id)
                    for kw_ in node.keywords:
                        if isinstance(kw_.value, ast.Name) and kw_.arg in self.callee_frames[fname]:
                            mutated.add(kw_.value.id)
                elif (isinstance(f, ast.Name) and f.id not in PURE_FUNCS) or (isinstance(f, ast.Attribute) and f.attr not in PURE_BINNER):
                    for a in list(node.args) + [k.value for k in node.keywords]:
                        if isinstance(a, ast.Name):
                            mutated.add(a.id)
        return names, mutated

    def only_deletes(self, st, name):
        """every mutation of local `name` inside the loop is `del name[0]` / `del name[-1]` (the window only shrinks)"""
        for node in ast.walk(st):
            if isinstance(node, ast.Name) and node.id == name and isinstance(node.ctx, (ast.Store, ast.Del)):
                return False
            if isinstance(node, ast.Call):
                f = node.func
                if isinstance(f, ast.Attribute) and isinstance(f.value, ast.Name) and f.value.id == name and f.attr in MUTATING_METHODS:
                    return False
                fname = f.id if isinstance(f, ast.Name) else f.attr if isinstance(f, ast.Attribute) else None
                if fname in self.callee_frames and not (isinstance(f, ast.Attribute) and f.attr in MUTATING_BINNER):
                    if any(isinstance(a, ast.Name) and a.id == name and pos in self.callee_frames[fname] for pos, a in enumerate(node.args)) or \
                            any(isinstance(k.value, ast.Name) and k.value.id == name and k.arg in self.callee_frames[fname] for k in node.keywords):
                        return False
                elif (isinstance(f, ast.Name) and f.id not in PURE_FUNCS) or (isinstance(f, ast.Attribute) and f.attr not in PURE_BINNER and f.attr not in MUTATING_BINNER):
                    for a in list(node.args) + [k.value for k in node.keywords]:
                        if isinstance(a, ast.Name) and a.id == name:
                            return False
            if isinstance(node, ast.Subscript) and isinstance(node.ctx, ast.Store) and isinstance(node.value, ast.Name) and node.value.id == name:
                return False
            if isinstance(node, ast.AugAssign):
                b = node.target
                while isinstance(b, (ast.Subscript, ast.Attribute)):
                    b = b.value
                if isinstance(b, ast.Name) and b.id == name:
                    return False
        return True

    def havoc(self, st, env, spec=None):
        from .absbin import ABins
        sorts = spec.sorts if spec is not None else {}
        names, mutated = self.write_set(st)
        for n in sorted(names | mutated):
            if n not in env.vars:
                continue
            v = env.vars[n]
            if n in sorts and n in names:
                so = sorts[n]
                env.vars[n] = tuple(SV(L.fresh(f"{n}_{k}", x)) for k, x in enumerate(so)) if isinstance(so, tuple) else SV(L.fresh(n, so))
            elif isinstance(v, SV):
                if n in names:
                    env.vars[n] = SV(L.fresh(n, v.t.sort()))
            elif isinstance(v, (int, Fraction)) and not isinstance(v, bool):
                if n in names:
                    env.vars[n] = SV(L.fresh(n, L.IntS if isinstance(v, int) else L.RealS))
            elif isinstance(v, float):
                if n in names:
                    env.vars[n] = SV(L.fresh(n, L.RealS))
            elif v is None:
                if n in names:
                    # a local that starts as None and is assigned in the body: at an arbitrary iteration it is None or some number
                    if self.decide([z3.BoolVal(True), z3.BoolVal(True)]) == 1:
                        env.vars[n] = SV(L.fresh(n, L.RealS))
            elif isinstance(v, bool):
                if n in names:
                    env.vars[n] = SV(L.fresh(n, L.BoolS))
            elif isinstance(v, ItemV):
                if n in names:
                    env.vars[n] = ItemV(L.fresh(n, L.Item))
            elif isinstance(v, ABins):
                nv = v.fresh_like(n)
                if n in names:
                    env.vars[n] = nv
                else:
                    v.assign_from(nv)
            elif isinstance(v, SSeq):
                if v.frozen:
                    continue
                if n not in names and self.only_deletes(st, n):
                    # frame inference: the body only deletes at the two ends, so the elements stay and the window shrinks
                    nv = SSeq(v.arr, L.fresh(n + "_lo", L.IntS), L.fresh(n + "_hi", L.IntS), v.kind, v.name)
                    self.assume(z3.And(v.lo <= nv.lo, nv.lo <= nv.hi, nv.hi <= v.hi))
                    v.lo, v.hi = nv.lo, nv.hi
                    continue
                nv = SSeq(L.fresh(n + "_arr", v.arr.sort()), L.fresh(n + "_lo", L.IntS), L.fresh(n + "_hi", L.IntS), v.kind, v.name)
                self.assume(nv.lo <= nv.hi)
                if n in names:
                    env.vars[n] = nv
                else:
                    v.arr, v.lo, v.hi = nv.arr, nv.lo, nv.hi
            elif isinstance(v, tuple) and n in names and all(isinstance(x, (SV, int)) and not isinstance(x, bool) for x in v):
                env.vars[n] = tuple(SV(L.fresh(f"{n}_{k}", L.IntS if isinstance(x, int) or L.is_int(x.t) else L.RealS)) for k, x in enumerate(v))
            elif isinstance(v, (Closure, Builtin, BoundMethod, ClassV, ModuleV, LazyModule, LazyAttr)) or (hasattr(v, "is_abstract_binner")):
                if n in names:
                    raise Unsupported(f"loop rebinds '{n}' (a function/binner)")
            else:
                raise Unsupported(f"loop modifies local '{n}' of a type the loop rule cannot havoc ({type(v).__name__})")

    def apply_hints(self, spec, ctx):
        if spec.hints is None:
            return
        for h in spec.hints(ctx):
            kind, arr, lo, hi = h
            if kind == "unfold_right":
                self.assume(L.unfold_right(arr, lo, hi))
            elif kind == "unfold_left":
                self.trust("lemma:rbag-left-unfolding (proved by induction in pyvc/lemmas.py)")
                self.assume(L.unfold_left(arr, lo, hi))
            elif kind == "empty":
                self.assume(L.empty_range(arr, lo, hi))
            elif kind == "concat":
                self.trust("lemma:rbag-window-concatenation (proved by induction in pyvc/lemmas.py)")
                lo_, mid = lo
                self.assume(L.concat(arr, lo_, mid, hi))
            else:
                raise Unsupported(f"unknown hint {kind}")

    def check_inv(self, key, spec, ctx, phase):
        self.apply_hints(spec, ctx)
        clauses = spec.inv(ctx)
        name = spec.name or f"loop{key[1]}"
        fn = key[0].split("::")[1]
        for cname, f in clauses:
            self.prove(f"{fn}/{name}/inv-{phase}/{cname}", f, kind="inv-" + phase)

    def assume_inv(self, spec, ctx):
        self.apply_hints(spec, ctx)
        for cname, f in spec.inv(ctx):
            self.assume(f)

    def cut_while(self, st, env, mod, spec):
        key = st._vc_loop
        args = self.frames[-1][2] if self.frames else {}
        self.check_inv(key, spec, Ctx(self, env, args), "init")
        self.havoc(st, env, spec)
        self.assume_inv(spec, Ctx(self, env, args))
        if self.truth(self.eval(st.test, env, mod)):
            try:
                self.exec_block(st.body, env, mod)
            except BreakSig:
                return
            except ContinueSig:
                pass
            self.check_inv(key, spec, Ctx(self, env, args), "preserved")
            raise PathEnd()
        self.exec_block(st.orelse, env, mod)

    def cut_for(self, st, env, mod, spec, it):
        key = st._vc_loop
        args = self.frames[-1][2] if self.frames else {}
        if isinstance(it, SSeq):
            seq = it.snapshot()
            seq.frozen = True
            n = seq.hi - seq.lo
        elif isinstance(it, SRange):
            if it.step != 1:
                raise Unsupported("range with step under a loop contract")
            seq = it
            n = term_of(it.stop) - term_of(it.start)
            n = z3.If(n >= 0, n, 0)
        else:
            raise Unsupported(f"loop contract on an iterable of type {type(it).__name__}")
        zero = z3.IntVal(0)
        if isinstance(seq, SSeq):
            self.assume(L.empty_range(seq.arr, seq.lo, seq.lo))
        self.check_inv(key, spec, Ctx(self, env, args, idx=zero, seq=seq), "init")
        self.havoc(st, env, spec)
        i = L.fresh("i", L.IntS)
        self.assume(z3.And(i >= 0, i <= n))
        self.assume_inv(spec, Ctx(self, env, args, idx=i, seq=seq))
        if self.branch(i < n):
            if isinstance(seq, SSeq):
                self.assume(L.unfold_right(seq.arr, seq.lo, seq.lo + i + 1))
                self.assume(L.empty_range(seq.arr, seq.lo, seq.lo))
                self.assign(st.target, seq.wrap(z3.Select(seq.arr, seq.lo + i)), env, mod)
            else:
                self.assign(st.target, SV(term_of(seq.start) + i), env, mod)
            env.vars["__idx__"] = SV(i)
            try:
                self.exec_block(st.body, env, mod)
            except BreakSig:
                return
            except ContinueSig:
                pass
            self.check_inv(key, spec, Ctx(self, env, args, idx=i + 1, seq=seq), "preserved")
            raise PathEnd()
        self.exec_block(st.orelse, env, mod)

    # ------------------------------------------------------------------ expressions
    def eval(self, e, env, mod):
        m = getattr(self, "ex_" + type(e).__name__, None)
        if m is None:
            raise Unsupported(f"expression {type(e).__name__} at line {getattr(e, 'lineno', '?')}")
        return m(e, env, mod)

    def force(self, v):
        while isinstance(v, (LazyModule, LazyAttr)):
            v = v.resolve()
        return v

    def ex_Constant(self, e, env, mod):
        v = e.value
        if isinstance(v, float):
            return norm_num(v)
        return v

    def ex_Name(self, e, env, mod):
        try:
            return self.force(env.lookup(e.id))
        except KeyError:
            pass
        from . import lib
        if e.id in lib.BUILTINS:
            return lib.BUILTINS[e.id]
        if e.id in mod.attrs.get("__unsupported__names__", ()):
            raise Unsupported(f"name {e.id} comes from an unmodelled top-level statement")
        raise Unsupported(f"name '{e.id}' is not defined (line {e.lineno})")

    def ex_JoinedStr(self, e, env, mod):
        return SymStr()

    def ex_Lambda(self, e, env, mod):
        return Closure(e, env, mod, "<lambda>")

    def ex_Tuple(self, e, env, mod):
        return tuple(self.eval_elts(e.elts, env, mod))

    def ex_List(self, e, env, mod):
        return PList(self.eval_elts(e.elts, env, mod))

    def ex_Set(self, e, env, mod):
        s = PSet()
        for x in self.eval_elts(e.elts, env, mod):
            self.set_add(s, x)
        return s

    def ex_Dict(self, e, env, mod):
        d = PDict()
        for k, v in zip(e.keys, e.values):
            if k is None:
                raise Unsupported("dict unpacking in a literal")
            self.setitem(d, self.eval(k, env, mod), self.eval(v, env, mod))
        return d

    def eval_elts(self, elts, env, mod):
        out = []
        for x in elts:
            if isinstance(x, ast.Starred):
                out.extend(self.iterate(self.eval(x.value, env, mod)))
            else:
                out.append(self.eval(x, env, mod))
        return out

    def ex_IfExp(self, e, env, mod):
        if self.truth(self.eval(e.test, env, mod)):
            return self.eval(e.body, env, mod)
        return self.eval(e.orelse, env, mod)

    def ex_BoolOp(self, e, env, mod):
        v = None
        for sub in e.values:
            v = self.eval(sub, env, mod)
            t = self.truth(v)
            if isinstance(e.op, ast.And) and not t:
                return v
            if isinstance(e.op, ast.Or) and t:
                return v
        return v

    def ex_UnaryOp(self, e, env, mod):
        v = self.eval(e.operand, env, mod)
        if isinstance(e.op, ast.Not):
            if isinstance(v, SV) and L.is_bool(v.t):
                return SV(z3.Not(v.t))
            return not self.truth(v)
        if isinstance(e.op, ast.USub):
            return self.binop(ast.Sub(), 0, v)
        if isinstance(e.op, ast.UAdd):
            return v
        raise Unsupported("unary operator")

    def ex_BinOp(self, e, env, mod):
        return self.binop(e.op, self.eval(e.left, env, mod), self.eval(e.right, env, mod))

    def ex_Compare(self, e, env, mod):
        left = self.eval(e.left, env, mod)
        res = None
        for op, rhs in zip(e.ops, e.comparators):
            right = self.eval(rhs, env, mod)
            c = self.compare(op, left, right)
            if res is None:
                res = c
            else:
                res = self.bool_and(res, c)
            if res is False:
                return False
            left = right
        return res

    def bool_and(self, a, b):
        if a is True:
            return b
        if b is True:
            return a
        if a is False or b is False:
            return False
        return SV(z3.And(term_of(a), term_of(b)))

    def ex_Attribute(self, e, env, mod):
        return self.force(self.getattr(self.eval(e.value, env, mod), e.attr))

    def ex_Subscript(self, e, env, mod):
        base = self.eval(e.value, env, mod)
        if isinstance(e.slice, ast.Slice):
            lo = self.eval(e.slice.lower, env, mod) if e.slice.lower is not None else None
            hi = self.eval(e.slice.upper, env, mod) if e.slice.upper is not None else None
            if e.slice.step is not None:
                raise Unsupported("slice with a step")
            return self.getslice(base, lo, hi)
        return self.getitem(base, self.eval_index(e.slice, env, mod))

    def eval_index(self, s, env, mod):
        return self.eval(s, env, mod)

    def ex_Starred(self, e, env, mod):
        raise Unsupported("starred expression")

    def comprehension(self, e, env, mod, emit):
        cenv = Env(env)

        def rec(k):
            if k == len(e.generators):
                emit(cenv)
                return
            g = e.generators[k]
            if g.is_async:
                raise Unsupported("async comprehension")
            it = self.eval(g.iter, cenv, mod)
            for x in self.iterate(it):
                self.assign(g.target, x, cenv, mod)
                if all(self.truth(self.eval(c, cenv, mod)) for c in g.ifs):
                    rec(k + 1)
        rec(0)

    def ex_ListComp(self, e, env, mod):
        it0 = self.eval(e.generators[0].iter, env, mod) if len(e.generators) == 1 else None
        if isinstance(it0, SSeq):
            from . import lib
            return lib.sseq_comprehension(self, e, env, mod, it0)
        out = []
        self.comprehension(e, env, mod, lambda cenv: out.append(self.eval(e.elt, cenv, mod)))
        return PList(out)

    def ex_GeneratorExp(self, e, env, mod):
        r = self.ex_ListComp(e, env, mod)
        return GenResult(r.elems) if type(r) is PList else r

    def ex_SetComp(self, e, env, mod):
        s = PSet()
        self.comprehension(e, env, mod, lambda cenv: self.set_add(s, self.eval(e.elt, cenv, mod)))
        return s

    def ex_DictComp(self, e, env, mod):
        d = PDict()
        self.comprehension(e, env, mod, lambda cenv: self.setitem(d, self.eval(e.key, cenv, mod), self.eval(e.value, cenv, mod)))
        return d

    def ex_Call(self, e, env, mod):
        f = self.eval(e.func, env, mod)
        args = self.eval_elts(e.args, env, mod)
        kwargs = {}
        for k in e.keywords:
            if k.arg is None:
                d = self.eval(k.value, env, mod)
                if isinstance(d, PDict):
                    for kk, vv in zip(d.keys, d.vals):
                        kwargs[kk] = vv
                elif isinstance(d, dict):
                    kwargs.update(d)
                else:
                    raise Unsupported("** of a non-dict")
            else:
                kwargs[k.arg] = self.eval(k.value, env, mod)
        spec = getattr(e, "_vc_call", None)
        if spec is not None and spec in self.callspecs:
            ctx = Ctx(self, env, self.frames[-1][2] if self.frames else {})
            fn = spec[0].split("::")[1]
            for cname, formula in self.callspecs[spec](ctx, args, kwargs):
                self.prove(f"{fn}/call:{spec[1]}#{spec[2]}/{cname}", formula, kind="step")
        self.cur_line = getattr(e, "lineno", self.cur_line)
        return self.call(f, args, kwargs)

    # ------------------------------------------------------------------ calls
    def call(self, f, args, kwargs=None):
        kwargs = kwargs or {}
        f = self.force(f)
        if isinstance(f, Builtin):
            return f.fn(self, args, kwargs)
        if isinstance(f, BoundMethod):
            return self.call(f.func, [f.self_] + list(args), kwargs)
        if isinstance(f, Closure):
            return self.call_closure(f, args, kwargs)
        if isinstance(f, ClassV):
            return self.instantiate(f, args, kwargs)
        if isinstance(f, ExcClass):
            return ExcV(f.name, args)
        if isinstance(f, Obj):
            m, _ = f.cls.lookup("__call__")
            if m is not None:
                return self.call(m, [f] + list(args), kwargs)
        if callable(getattr(f, "vc_call", None)):
            return f.vc_call(self, args, kwargs)
        raise Unsupported(f"call of {type(f).__name__} ({f!r})")

    def bind_params(self, f, args, kwargs):
        a = f.node.args
        env = Env(f.env)
        params = [p.arg for p in a.posonlyargs + a.args]
        defaults = a.defaults
        ndef = len(defaults)
        args = list(args)
        kwargs = dict(kwargs)
        if len(args) > len(params):
            if a.vararg is None:
                raise RaiseSig(ExcV("TypeError", ("too many positional arguments",)))
            env.vars[a.vararg.arg] = tuple(args[len(params):])
            args = args[:len(params)]
        elif a.vararg is not None:
            env.vars[a.vararg.arg] = ()
        for k, p in enumerate(params):
            if k < len(args):
                if p in kwargs:
                    raise RaiseSig(ExcV("TypeError", ("multiple values",)))
                env.vars[p] = args[k]
            elif p in kwargs:
                env.vars[p] = kwargs.pop(p)
            else:
                di = k - (len(params) - ndef)
                if di < 0:
                    raise RaiseSig(ExcV("TypeError", (f"missing argument {p}",)))
                env.vars[p] = self.eval(defaults[di], f.env, f.module)
        for p, d in zip(a.kwonlyargs, a.kw_defaults):
            if p.arg in kwargs:
                env.vars[p.arg] = kwargs.pop(p.arg)
            elif d is not None:
                env.vars[p.arg] = self.eval(d, f.env, f.module)
            else:
                raise RaiseSig(ExcV("TypeError", (f"missing keyword argument {p.arg}",)))
        if kwargs:
            if a.kwarg is None:
                raise RaiseSig(ExcV("TypeError", (f"unexpected keyword argument {list(kwargs)[0]}",)))
            d = PDict()
            for k, v in kwargs.items():
                d.keys.append(k)
                d.vals.append(v)
            env.vars[a.kwarg.arg] = d
        elif a.kwarg is not None:
            env.vars[a.kwarg.arg] = PDict()
        return env

    def fn_target(self, f):
        return f"{f.module.path}::{f.qualname}" if hasattr(f.module, "path") else f.qualname

    def call_closure(self, f, args, kwargs):
        tgt = self.fn_target(f) if not isinstance(f.node, ast.Lambda) else None
        if tgt is not None and tgt in self.contracts and not self.inline_only and (self.frames or tgt != self.root):
            self.modular_calls += 1
            return self.contracts[tgt].apply_at_call(self, f, args, kwargs)
        env = self.bind_params(f, args, kwargs)
        if isinstance(f.node, ast.Lambda):
            return self.eval(f.node.body, env, f.module)
        if f.is_generator is None:
            f.is_generator = any(isinstance(n, (ast.Yield, ast.YieldFrom)) for n in _walk_fn(f.node))
        if len(self.frames) > 60:
            raise Unsupported("recursion deeper than 60 frames")
        if f.is_generator and self.lazy_generators:
            return LazyGen(self, f, env)
        self.frames.append((f, env, dict(env.vars)))
        line = self.cur_line
        try:
            if f.is_generator:
                env.vars["__yields__"] = PList()
                try:
                    self.exec_block(f.node.body, env, f.module)
                except ReturnSig:
                    pass
                return GenResult(env.vars["__yields__"].elems)
            try:
                self.exec_block(f.node.body, env, f.module)
            except ReturnSig as r:
                return r.value
            return None
        finally:
            self.frames.pop()
            self.cur_line = line

    def ex_Yield(self, e, env, mod):
        v = self.eval(e.value, env, mod) if e.value is not None else None
        hook = self.hooks.get("yield")
        if hook is not None:
            hook(self, env, v)
        ys = env.lookup("__yields__")
        if isinstance(ys, LazyGen):
            ys.do_yield(v)                  # coroutine: the consumer runs now and sees the live object, as in CPython
            return None
        if self.snapshot_yields:
            from . import lib
            v = lib.deep_copy(self, v)      # what the consumer sees at the moment of the yield (generators are run eagerly)
        ys.elems.append(v)
        return None

    def ex_YieldFrom(self, e, env, mod):
        v = self.eval(e.value, env, mod)
        ys = env.lookup("__yields__")
        if isinstance(ys, LazyGen):
            if isinstance(v, LazyGen):
                while True:
                    x = v.next()
                    if x is LazyGen.STOP:
                        break
                    ys.do_yield(x)
            else:
                for x in self.iterate(v):
                    ys.do_yield(x)
            return None
        ys.elems.extend(self.iterate(v))
        return None

    def kill_generators(self):
        for g in self.live_gens:
            g.close()
        self.live_gens = []

    def instantiate(self, cls, args, kwargs):
        if any(isinstance(b, ExcClass) for b in cls.bases):
            return ExcV(cls.name, args)
        o = Obj(cls)
        init, _ = cls.lookup("__init__")
        if init is not None:
            self.call(init, [o] + list(args), kwargs)
        elif cls.dataclass_fields is not None:
            fields = cls.dataclass_fields
            vals = list(args)
            for k, fname in enumerate(fields):
                if k < len(vals):
                    o.attrs[fname] = vals[k]
                elif fname in kwargs:
                    o.attrs[fname] = kwargs[fname]
                elif fname in cls.attrs:
                    o.attrs[fname] = cls.attrs[fname]
                else:
                    raise RaiseSig(ExcV("TypeError", ("missing dataclass field",)))
        elif args or kwargs:
            raise RaiseSig(ExcV("TypeError", ("object() takes no arguments",)))
        hook = self.hooks.get("post_init")
        if hook is not None:
            hook(self, o)
        return o

    # ------------------------------------------------------------------ attributes
    def getattr(self, v, name):
        from . import lib
        v = self.force(v)
        if isinstance(v, ModuleV):
            if name in v.attrs:
                return v.attrs[name]
            # sub-module of a repo package
            try:
                return self.load_module(v.name + "." + name)
            except Unsupported:
                raise Unsupported(f"module {v.name} has no modelled attribute '{name}'")
        if isinstance(v, Obj):
            if name in v.attrs:
                return v.attrs[name]
            a, owner = v.cls.lookup(name)
            if a is None:
                raise RaiseSig(ExcV("AttributeError", (name,)))
            return self.bind(a, v, v.cls)
        if isinstance(v, ClassV):
            a, owner = v.lookup(name)
            if a is None:
                if name == "__name__":
                    return v.name
                raise RaiseSig(ExcV("AttributeError", (name,)))
            a = self.force(a)
            if isinstance(a, Closure) and a.kind == "classmethod":
                return BoundMethod(v, a)
            return a
        if isinstance(v, SuperProxy):
            mro = v.obj.cls.mro() if isinstance(v.obj, Obj) else v.obj.mro()
            k = mro.index(v.cls)
            for c in mro[k + 1:]:
                if name in c.attrs:
                    return self.bind(c.attrs[name], v.obj, c)
            if name == "__init__":
                return Builtin("object.__init__", lambda it, a, k: None)
            raise RaiseSig(ExcV("AttributeError", (name,)))
        h = getattr(v, "vc_getattr", None)
        if h is not None:
            return h(self, name)
        return lib.builtin_getattr(self, v, name)

    def bind(self, a, obj, cls):
        a = self.force(a)
        if isinstance(a, Closure):
            if a.kind == "classmethod":
                return BoundMethod(obj.cls if isinstance(obj, Obj) else obj, a)
            if a.kind == "staticmethod":
                return a
            if isinstance(obj, Obj):
                return BoundMethod(obj, a)
        return a

    def setattr(self, v, name, val):
        if isinstance(v, Obj):
            v.attrs[name] = val
            return
        if isinstance(v, (Closure, BoundMethod, ClassV)) and name == "__name__":
            return
        if isinstance(v, ModuleV):
            if name in ("verbose", "objective", "preprocess"):
                v.attrs[name] = val
                return
        h = getattr(v, "vc_setattr", None)
        if h is not None:
            return h(self, name, val)
        raise Unsupported(f"attribute store on {type(v).__name__}.{name}")

    # ------------------------------------------------------------------ data model helpers (delegated to lib)
    def truth(self, v):
        from . import lib
        return lib.truth(self, v)

    def binop(self, op, a, b):
        from . import lib
        return lib.binop(self, op, a, b)

    def compare(self, op, a, b):
        from . import lib
        return lib.compare(self, op, a, b)

    def getitem(self, base, idx):
        from . import lib
        return lib.getitem(self, base, idx)

    def setitem(self, base, idx, v):
        from . import lib
        return lib.setitem(self, base, idx, v)

    def delitem(self, base, idx):
        from . import lib
        return lib.delitem(self, base, idx)

    def getslice(self, base, lo, hi):
        from . import lib
        return lib.getslice(self, base, lo, hi)

    def setslice(self, base, sl, v, env, mod):
        from . import lib
        lo = self.eval(sl.lower, env, mod) if sl.lower is not None else None
        hi = self.eval(sl.upper, env, mod) if sl.upper is not None else None
        return lib.setslice(self, base, lo, hi, v)

    def iterate(self, v, live=False):
        from . import lib
        return lib.iterate(self, v, live)

    def set_add(self, s, x):
        from . import lib
        return lib.set_add(self, s, x)


class GenResult(PList):
    """the values a generator yields, computed eagerly (DESIGN 3.2)"""
    def __init__(self, elems):
        super().__init__(elems)
        self.pos = 0


class GenKill(BaseException):
    pass


class LazyGen:
    """a generator object run as a coroutine: its body executes in a thread of its own that runs strictly in alternation with the
    consumer (one of the two is always blocked), so every yielded value is produced when it is asked for and sees the state the consumer
    left behind - e.g. SNP's inclusion-exclusion tree, whose bounds are tightened while it is being consumed"""
    STOP = object()

    def __init__(self, it, f, env):
        import threading
        self.it, self.f, self.env = it, f, env
        env.vars["__yields__"] = self
        self.started = self.done = self.kill = False
        self.to_gen, self.to_cons = threading.Semaphore(0), threading.Semaphore(0)
        self.msg = None
        self.saved_frames = [(f, env, dict(env.vars))]
        self.thread = None
        it.live_gens.append(self)

    def _run(self):
        self.to_gen.acquire()
        try:
            if self.kill:
                raise GenKill()
            try:
                self.it.exec_block(self.f.node.body, self.env, self.f.module)
            except ReturnSig:
                pass
            self.msg = ("done",)
        except GenKill:
            self.msg = ("done",)
        except BaseException as e:
            self.msg = ("exc", e)
        self.done = True
        self.to_cons.release()

    def next(self):
        import threading
        if self.done:
            return LazyGen.STOP
        it = self.it
        if not self.started:
            self.started = True
            self.thread = threading.Thread(target=self._run, daemon=True)
            self.thread.start()
        base, line = len(it.frames), it.cur_line
        it.frames.extend(self.saved_frames)
        self.to_gen.release()
        self.to_cons.acquire()
        self.saved_frames = it.frames[base:]
        del it.frames[base:]
        it.cur_line = line
        if self.msg[0] == "yield":
            return self.msg[1]
        if self.msg[0] == "done":
            return LazyGen.STOP
        raise self.msg[1]

    def do_yield(self, v):
        self.msg = ("yield", v)
        self.to_cons.release()
        self.to_gen.acquire()
        if self.kill:
            raise GenKill()

    def close(self):
        if self.started and not self.done:
            self.kill = True
            self.to_gen.release()
            self.to_cons.acquire()
        self.done = True
        if self.thread is not None:
            self.thread.join()
            self.thread = None

    def exhaust(self):
        out = []
        while True:
            x = self.next()
            if x is LazyGen.STOP:
                return out
            out.append(x)


class LazyModule:
    def __init__(self, it, name):
        self.it, self.name = it, name

    def resolve(self):
        return self.it.load_module(self.name)


class LazyAttr:
    def __init__(self, it, module, name):
        self.it, self.module, self.name = it, module, name

    def resolve(self):
        m = self.it.load_module(self.module)
        if self.name in m.attrs:
            return self.it.force(m.attrs[self.name])
        try:
            return self.it.load_module(self.module + "." + self.name)
        except Unsupported:
            raise Unsupported(f"cannot import name {self.name} from {self.module}")


def _walk_fn(node):
    """walk a function body without descending into nested function definitions / lambdas"""
    stack = list(node.body)
    while stack:
        n = stack.pop()
        yield n
        for ch in ast.iter_child_nodes(n):
            if isinstance(ch, (ast.FunctionDef, ast.Lambda, ast.ClassDef)):
                continue
            stack.append(ch)


def _walk_in_order(node):
    out = []

    def rec(n):
        out.append(n)
        for ch in ast.iter_child_nodes(n):
            rec(ch)
    rec(node)
    return out


EXC_BASES = {"ValueError": ("Exception",), "TypeError": ("Exception",), "IndexError": ("LookupError", "Exception"), "KeyError": ("LookupError", "Exception"),
             "NotImplementedError": ("RuntimeError", "Exception"), "ZeroDivisionError": ("ArithmeticError", "Exception"), "StopIteration": ("Exception",),
             "AttributeError": ("Exception",), "AssertionError": ("Exception",)}
MUTATING_BINNER = {"add_item_to_bin", "combine_bins", "sort_by_ascending_sum", "add_empty_bins", "remove_bins", "concatenate_bins"}
PURE_BINNER = {"valueof", "sums", "numbins", "numitems", "copy_bins", "new_bins", "info", "debug", "warning", "__getitem__", "lower_bound", "value_to_minimize",
               "perf_counter", "floor", "ceil", "keys", "get", "zeros"}
PURE_FUNCS = {"len", "sorted", "sum", "max", "min", "list", "tuple", "map", "enumerate", "range", "zip", "reversed", "print", "isinstance", "abs", "any", "all",
              "int", "float", "str", "set", "filter", "ValueError", "TypeError", "NotImplementedError", "IndexError"}
MUTATING_METHODS = {"append", "extend", "insert", "remove", "pop", "sort", "reverse", "add", "clear", "update", "push", "discard"}
