"""Sorts, spec functions and their defining facts (DESIGN 3.2).  Everything here is *specification* vocabulary:
uninterpreted sorts/functions introduced by defining equations that the engine instantiates explicitly
(no quantified axioms are handed to the solver unless a contract writes them)."""
from __future__ import annotations
import z3
from fractions import Fraction

Item = z3.DeclareSort("Item")
IntS, RealS, BoolS = z3.IntSort(), z3.RealSort(), z3.BoolSort()
Bag = z3.ArraySort(Item, IntS)              # multiset of items
ISeq = z3.ArraySort(IntS, Item)             # sequence of items (index -> item)
RSeq = z3.ArraySort(IntS, RealS)            # sequence of numbers
NSeq = z3.ArraySort(IntS, IntS)
BagSeq = z3.ArraySort(IntS, Bag)

val = z3.Function("val", Item, RealS)                       # binner.valueof as a pure total function (A6)
rbag = z3.Function("rbag", ISeq, IntS, IntS, Bag)           # bag of a[lo:hi]
rtot = z3.Function("rtot", ISeq, IntS, IntS, RealS)         # total value of a[lo:hi]
btot = z3.Function("btot", Bag, RealS)                      # total value of a (finite) bag
bcard = z3.Function("bcard", Bag, IntS)                     # cardinality of a (finite) bag
rank = z3.Function("rank", Item, IntS)                      # the items' OWN order (names compare among themselves), unrelated to val; injective
istype = z3.Function("istype", Item, IntS, BoolS)           # isinstance(item, T) for the type with code T: an unknown predicate on items
rmax = z3.Function("rmax", ISeq, IntS, IntS, RealS)         # largest value in a (non-empty) window a[lo:hi]
truthy = z3.Function("truthy", Item, BoolS)                # bool(item): unknown for an opaque item (the names 0 and "" are falsy)
EMPTY = z3.K(Item, z3.IntVal(0))

_counter = [0]


def fresh(prefix, sort):
    _counter[0] += 1
    return z3.Const(f"{prefix}!{_counter[0]}", sort)


def reset_names():
    _counter[0] = 0


def badd(b, x):
    return z3.Store(b, x, z3.Select(b, x) + 1)


def bunion_facts(b1, b2, b):
    """facts defining b = b1 (+) b2 pointwise (quantified; used only with explicit instantiation needs)"""
    x = fresh("x", Item)
    return z3.ForAll([x], z3.Select(b, x) == z3.Select(b1, x) + z3.Select(b2, x))


# ---- defining equations, instantiated on demand ---------------------------------------------------------------
def unfold_right(a, lo, hi):
    """lo < hi  =>  rbag(a,lo,hi) = rbag(a,lo,hi-1) + {a[hi-1]}   (DEFINITION of rbag, with rbag(a,lo,lo) = {})
       and the same for rtot."""
    return z3.Implies(lo < hi, z3.And(rbag(a, lo, hi) == badd(rbag(a, lo, hi - 1), z3.Select(a, hi - 1)),
                                      rtot(a, lo, hi) == rtot(a, lo, hi - 1) + val(z3.Select(a, hi - 1))))


def unfold_left(a, lo, hi):
    """lo < hi  =>  rbag(a,lo,hi) = rbag(a,lo+1,hi) + {a[lo]}   -- a LEMMA (proved by induction in lemmas.py)"""
    return z3.Implies(lo < hi, z3.And(rbag(a, lo, hi) == badd(rbag(a, lo + 1, hi), z3.Select(a, lo)),
                                      rtot(a, lo, hi) == rtot(a, lo + 1, hi) + val(z3.Select(a, lo))))


def concat(a, lo, mid, hi):
    """lo <= mid <= hi  =>  rbag(a,lo,hi) = rbag(a,lo,mid) (+) rbag(a,mid,hi)   -- a LEMMA (proved by induction in lemmas.py); same for rtot"""
    x, y = z3.Ints("x y")
    plus = (x + y).decl()
    return z3.Implies(z3.And(lo <= mid, mid <= hi), z3.And(rbag(a, lo, hi) == z3.Map(plus, rbag(a, lo, mid), rbag(a, mid, hi)),
                                                         rtot(a, lo, hi) == rtot(a, lo, mid) + rtot(a, mid, hi)))


def rmax_facts(a, lo, hi):
    """DEFINITION of rmax on a non-empty window: an upper bound of the values that is attained"""
    k, w = fresh("k", IntS), fresh("w", IntS)
    return z3.Implies(lo < hi, z3.And(z3.ForAll([k], z3.Implies(z3.And(lo <= k, k < hi), val(z3.Select(a, k)) <= rmax(a, lo, hi))),
                                      z3.Exists([w], z3.And(lo <= w, w < hi, val(z3.Select(a, w)) == rmax(a, lo, hi)))))


def empty_range(a, lo, hi):
    return z3.Implies(lo >= hi, z3.And(rbag(a, lo, hi) == EMPTY, rtot(a, lo, hi) == 0))


def btot_add(b, x):
    """DEFINITION of btot / bcard on finite bags: btot({})=0, btot(b+{x}) = btot(b)+val(x)"""
    return z3.And(btot(badd(b, x)) == btot(b) + val(x), bcard(badd(b, x)) == bcard(b) + 1)


def btot_empty():
    return z3.And(btot(EMPTY) == 0, bcard(EMPTY) == 0)


def to_z3(x):
    if isinstance(x, bool):
        return z3.BoolVal(x)
    if isinstance(x, int):
        return z3.IntVal(x)
    if isinstance(x, Fraction):
        return z3.RealVal(str(x))
    if isinstance(x, float):
        if x != x or x in (float("inf"), float("-inf")):
            raise ValueError("non-finite float has no z3 term")
        return z3.RealVal(str(Fraction(x)))
    return x


def is_int(t):
    return z3.is_expr(t) and t.sort() == IntS


def is_real(t):
    return z3.is_expr(t) and t.sort() == RealS


def is_bool(t):
    return z3.is_expr(t) and t.sort() == BoolS
