"""counter-model -> concrete arguments, and comparison of the engine's predicted result with the real one (DESIGN 3.7, section 10)"""
from __future__ import annotations
import z3
from fractions import Fraction
from . import logic as L
from .values import *


def num_of(zv):
    if z3.is_int_value(zv):
        return zv.as_long()
    if z3.is_rational_value(zv):
        f = Fraction(zv.numerator_as_long(), zv.denominator_as_long())
        return int(f) if f.denominator == 1 else f
    if z3.is_true(zv):
        return True
    if z3.is_false(zv):
        return False
    if z3.is_algebraic_value(zv):
        return Fraction(str(zv.approx(20).as_fraction()))
    raise ValueError(f"no concrete value for {zv}")


class Concretizer:
    def __init__(self, model):
        self.m = model
        self.items = {}          # model element -> name

    def __call__(self, v):
        m = self.m
        if isinstance(v, SV):
            return num_of(m.eval(v.t, model_completion=True))
        if isinstance(v, ItemV):
            e = m.eval(v.t, model_completion=True)
            key = str(e)
            if key not in self.items:
                self.items[key] = (f"x{len(self.items)}", num_of(m.eval(L.val(v.t), model_completion=True)))
            return {"item": self.items[key][0], "value": self.items[key][1]}
        if isinstance(v, (PList, PSet)):
            return [self(x) for x in v.elems]
        if isinstance(v, tuple):
            return [self(x) for x in v]
        if isinstance(v, NdArr):
            return [self(x) for x in v.tolist()]
        if isinstance(v, ExcV):
            return {"raises": v.cls}
        if isinstance(v, float):
            return "inf" if v > 0 else "-inf"
        if isinstance(v, (int, Fraction, str, bool)) or v is None:
            return v
        if isinstance(v, PDict):
            return {str(self(k)): self(x) for k, x in zip(v.keys, v.vals)}
        if isinstance(v, Obj):
            return {"object": v.cls.name, "attrs": {k: self(x) for k, x in v.attrs.items() if not isinstance(x, (Closure, BoundMethod))}}
        return repr(v)


def jsonable(x):
    if isinstance(x, Fraction):
        return {"frac": [x.numerator, x.denominator]}
    if isinstance(x, dict):
        return {k: jsonable(v) for k, v in x.items()}
    if isinstance(x, (list, tuple)):
        return [jsonable(v) for v in x]
    return x


def unjson(x):
    if isinstance(x, dict) and set(x) == {"frac"}:
        return Fraction(*x["frac"])
    if isinstance(x, dict):
        return {k: unjson(v) for k, v in x.items()}
    if isinstance(x, list):
        return [unjson(v) for v in x]
    return x


def same(a, b, tol=1e-9):
    """predicted (exact) vs real (float / numpy) results"""
    import numpy as np
    if isinstance(a, dict) and "item" in a and "value" in a and len(a) == 2:
        a = a["item"]
    if isinstance(b, np.ndarray):
        b = b.tolist()
    if isinstance(b, np.generic):
        b = b.item()
    if isinstance(a, (list, tuple)) and isinstance(b, (list, tuple)):
        return len(a) == len(b) and all(same(x, y, tol) for x, y in zip(a, b))
    if isinstance(a, (int, Fraction, float)) and not isinstance(a, bool) and isinstance(b, (int, float, Fraction)) and not isinstance(b, bool):
        return abs(float(a) - float(b)) <= tol * max(1.0, abs(float(a)))
    if a in ("inf", "-inf") and isinstance(b, float):
        return b == float(a)
    return a == b
