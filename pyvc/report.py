"""Obligation records, decision rule, known findings, replay files, evidence writer (DESIGN 3.7, 8)."""
from __future__ import annotations
import json, os, sys, time, hashlib
from dataclasses import dataclass, field, asdict
from typing import Any, Optional

ROOT = os.path.dirname(os.path.dirname(os.path.abspath(__file__)))
REPO = os.environ.get("PRTPY_REPO", "/repo")

PROVED, BOUNDED, REFUTED, UNDECIDED, KNOWN = "proved", "held-bounded", "refuted", "undecided", "known-finding"

ASSUMPTIONS = {
    "A1": "A1 arithmetic is mathematical (ints/float64 sums of the quantified integers are exact; MultiFit halving idealised)",
    "A2": "A2 library contracts used by the engine (sorted/min/max/sum/len/list ops/numpy array ops/heapq/itertools) are trusted; cross-checked against CPython on explored T2 paths",
    "A3": "A3 assumed contract of python-mip/CBC: status OPTIMAL => integral x satisfying all constraints and minimising the objective (monitored at run time in T3)",
    "A4": "A4 partial correctness only: termination is not proved",
    "A5": "A5 logging calls have no semantic effect and are dropped together with docstrings, annotations and __main__ blocks",
    "A6": "A6 MemoryError/RecursionError/KeyboardInterrupt and Binner subclasses other than the two shipped are not modelled; valueof is pure and total",
    "A7": "A7 meta-theorems used outside the solver: induction over operation histories (C16), parametricity in (Item, valueof) (C07), representation independence (C06), rule-conformance => published ratio theorems (C08-C10)",
    "A8": "A8 z3 / cvc5 are correct; spec functions are conservative definitions",
}


@dataclass
class Ob:
    id: str                      # obligation name, e.g. first_fit.online/loop0/inv-preserved/any-fit
    tier: str                    # T1 | T2 | T3 | static
    status: str                  # proved | held-bounded | refuted | undecided | known-finding
    function: str = ""           # repo function under contract
    solver: str = ""             # z3-5.1 | cvc5-1.0 | z3-4.8 | runtime | static
    time_s: float = 0.0
    bound: str = ""              # stated bound for T2/T3
    detail: str = ""
    witness: Any = None          # concrete input reproducing on the real code (or solver model)
    replayed: bool = False       # witness reproduced on the real code
    evaluations: int = 0         # T3: number of inputs on which the contract was evaluated
    nontrivial: int = 0          # T3: distinct non-trivial inputs
    samples: list = field(default_factory=list)
    known: str = ""              # text of the matched known finding


class Report:
    def __init__(self, prop: str, tier: str, seed: int):
        self.prop, self.tier, self.seed = prop, tier, seed
        self.obs: list[Ob] = []
        self.t0 = time.time()
        self.assumptions: set[str] = set()
        self.trusted: set[str] = set()
        self.functions: set[str] = set()
        self.notes: list[str] = []
        self.level = "other"
        self.level_if_incomplete = "exploration"
        self.explanation = ""
        self.extra: dict = {}

    def add(self, ob: Ob):
        if ob is None or ob.status == "skipped":
            return ob
        self.obs.append(ob)
        if ob.function:
            self.functions.add(ob.function)
        return ob

    def extend(self, obs):
        for o in obs:
            self.add(o)

    def assume(self, *keys):
        for k in keys:
            self.assumptions.add(ASSUMPTIONS.get(k, k))

    def trust(self, *items):
        self.trusted.update(items)


def load_known():
    p = os.path.join(ROOT, "known_findings.json")
    if not os.path.exists(p):
        return []
    return json.load(open(p))["findings"]


def _match_fields(sel, inp):
    if sel is None:
        return True
    if not isinstance(inp, dict):
        return False
    for key, allowed in sel.items():
        if inp.get(key) not in allowed:
            return False
    return True


def match_known(prop: str, ob: Ob, known):
    """A listed open finding suppresses exactly: same property, same obligation id, and (if the entry has a `match`
    selector) only failing inputs whose listed fields take one of the listed values.  For a T3 obligation every failing
    input is matched separately; one unlisted failing input keeps the obligation refuted (with that input as witness)."""
    cands = [k for k in known if k.get("status") == "open" and k["property"] == prop and k["obligation"] == ob.id]
    if not cands:
        return None
    fails = ob.witness.get("failures") if isinstance(ob.witness, dict) and "failures" in ob.witness else None
    if fails is None:
        for k in cands:
            if _match_fields(k.get("match"), ob.witness if isinstance(ob.witness, dict) else None):
                return [k]
        return None
    used, rest = [], []
    for f in fails:
        hit = next((k for k in cands if _match_fields(k.get("match"), f["input"])), None)
        if hit is None:
            rest.append(f)
        elif hit not in used:
            used.append(hit)
    if rest:
        ob.witness = {"failures": rest, "input": rest[0]["input"]}
        ob.detail = rest[0]["error"]
        ob.known_partial = used
        return None
    return used


def write_replay(prop: str, ob: Ob) -> str:
    d = os.path.join(os.environ.get("VERIF_OUT_DIR", os.path.join(ROOT, "out")), "replay", prop)
    os.makedirs(d, exist_ok=True)
    name = hashlib.sha1(ob.id.encode()).hexdigest()[:10] + "_" + "".join(c if c.isalnum() else "_" for c in ob.id)[:80] + ".json"
    path = os.path.join(d, name)
    json.dump({"property": prop, "obligation": ob.id, "function": ob.function, "tier": ob.tier, "solver": ob.solver,
               "bound": ob.bound, "detail": ob.detail, "witness": ob.witness, "replayed_on_real_code": ob.replayed,
               "replay_cmd": f"./check {prop} --replay {path}"}, open(path, "w"), indent=1, default=str)
    return path


def finish(rep: Report) -> int:
    """Apply the decision rule, print KNOWN-FINDING / VIOLATION lines, write the evidence file, return the exit code."""
    known = load_known()
    violations = []
    for ob in rep.obs:
        if ob.status == REFUTED:
            ks = match_known(rep.prop, ob, known)
            if ks is not None:
                ob.status = KNOWN
                ob.known = " ;; ".join(k["what"] for k in ks)
            elif getattr(ob, "known_partial", None):
                ob.known = " ;; ".join(k["what"] for k in ob.known_partial)
    printed = set()
    for ob in rep.obs:
        for what in (ob.known.split(" ;; ") if ob.known else []):
            if what not in printed:
                printed.add(what)
                print(f"KNOWN-FINDING: property={rep.prop} {what}")
        if ob.status == REFUTED:
            violations.append(ob)
    for ob in violations:
        path = write_replay(rep.prop, ob)
        tail = "" if ob.replayed else " no-failing-input-found"
        print(f"VIOLATION property={rep.prop} replay={path}{tail}")
        print(f"  obligation {ob.id} [{ob.tier}] {ob.detail[:400]}")
        if ob.witness is not None:
            print(f"  witness {json.dumps(ob.witness, default=str)[:400]}")

    ded = [o for o in rep.obs if o.tier in ("T1", "T2", "static")]
    t3 = [o for o in rep.obs if o.tier == "T3"]
    n_ob = len(ded)
    n_dis = sum(1 for o in ded if o.status == PROVED)
    undec = [o for o in rep.obs if o.status == UNDECIDED]
    evals = sum(o.evaluations for o in t3)
    nontriv = sum(o.nontrivial for o in t3)
    samples = []
    for o in ded[:6]:
        samples.append({"obligation": o.id, "tier": o.tier, "status": o.status, "solver": o.solver, "time_s": round(o.time_s, 4), "bound": o.bound})
    for o in t3[:6]:
        for s in o.samples[:2]:
            samples.append({"contract": o.id, "input": s})
    level = rep.level
    if level == "proof" and (n_ob == 0 or n_dis != n_ob):
        level = rep.level_if_incomplete
    by_solver = {}
    for o in rep.obs:
        by_solver.setdefault(o.solver or "-", [0, 0.0])
        by_solver[o.solver or "-"][0] += 1
        by_solver[o.solver or "-"][1] += o.time_s
    cov = {
        "obligations": n_ob, "discharged": n_dis,
        "checker_cmd": f"./check {rep.prop} --tier {rep.tier}",
        "trusted_base": sorted(rep.trusted),
        "evaluations": max(evals, 0), "distinct_nontrivial": nontriv,
        "rule": rep.extra.pop("rule", "T3 contracts are evaluated on a deterministic bounded-exhaustive domain plus seeded samples; an input is non-trivial when it has >= 2 items that are not all equal; distinct by value"),
        "samples": samples,
        "explanation": rep.explanation,
        "functions_under_contract": sorted(rep.functions),
        "per_tier": {t: {"obligations": sum(1 for o in rep.obs if o.tier == t),
                         "proved": sum(1 for o in rep.obs if o.tier == t and o.status == PROVED),
                         "held_bounded": sum(1 for o in rep.obs if o.tier == t and o.status == BOUNDED),
                         "undecided": sum(1 for o in rep.obs if o.tier == t and o.status == UNDECIDED),
                         "refuted": sum(1 for o in rep.obs if o.tier == t and o.status == REFUTED),
                         "known_findings": sum(1 for o in rep.obs if o.tier == t and o.status == KNOWN)}
                     for t in ("T1", "T2", "static", "T3")},
        "solver_time_s": {k: {"obligations": v[0], "seconds": round(v[1], 3)} for k, v in by_solver.items()},
        "bounded_stand_ins_never_counted_proved": [{"contract": o.id, "bound": o.bound, "evaluations": o.evaluations, "status": o.status} for o in t3],
        "undecided": [{"obligation": o.id, "why": o.detail[:300]} for o in undec],
        "known_findings_printed": sorted(printed),
        "obligation_list": [{"id": o.id, "tier": o.tier, "status": o.status, "function": o.function, "solver": o.solver,
                             "time_s": round(o.time_s, 4), "bound": o.bound} for o in rep.obs][:400],
        "notes": rep.notes,
    }
    cov.update(rep.extra)
    if level in ("exploration", "fault_enumeration") and (cov["evaluations"] < 1 or cov["distinct_nontrivial"] < 2):
        level = "other"
    ev = {"property_id": rep.prop, "tier": rep.tier, "seed": rep.seed, "level": level, "coverage": cov,
          "assumptions": sorted(rep.assumptions), "wall_s": round(time.time() - rep.t0, 2), "violations": len(violations)}
    evdir = os.environ.get("VERIF_EVIDENCE_DIR", os.path.join(ROOT, "evidence"))     # (redirected only by tools/seed_run.sh)
    os.makedirs(evdir, exist_ok=True)
    json.dump(ev, open(os.path.join(evdir, rep.prop + ".json"), "w"), indent=1, default=str)
    decided = [o for o in rep.obs if o.status in (PROVED, BOUNDED, KNOWN)]
    print(f"[{rep.prop}] tier={rep.tier} level={level} deductive {n_dis}/{n_ob} proved; T3 contracts {sum(1 for o in t3 if o.status == BOUNDED)}/{len(t3)} held on {evals} evaluations; "
          f"undecided {len(undec)}; known {len(printed)}; violations {len(violations)}; {ev['wall_s']} s")
    for o in undec[:10]:
        print(f"  undecided: {o.id}: {o.detail[:200]}")
    if violations:
        return 1
    if ev["coverage"].get("engine_mismatch"):
        print(f"[{rep.prop}] the engine's model of Python disagreed with CPython on an explored path: engine failure (exit 3), not a verdict")
        return 3
    if not decided:
        return 2
    return 0
