"""Abstract bins-array and the Binner contracts (DESIGN 3.3 / 4.1).

Algorithms are verified against these contracts (modular); the two shipped managers are verified against the same
contracts separately (props/C16, contracts/binners.py).

Abstract view of a bins-array b:
    nb   : Int                 number of bins
    S    : Int -> Real         reported sums
    CNT  : Int -> Int          number of items in each bin                (ghost for the sums-only manager)
    FST  : Int -> Real         value of the first item put in each bin    (ghost; meaningful where CNT > 0)
    CB   : Int -> Bag          contents of each bin as a multiset         (ghost for the sums-only manager)
    G    : Bag                 union of all CB[j], 0 <= j < nb            (ghost)
    REM  : Bag                 everything dropped by remove_bins so far   (ghost)
wf(b): forall 0<=j<nb. S[j] = btot(CB[j]) and CNT[j] = bcard(CB[j])   (class invariant, proved for the managers in C16)
"""
from __future__ import annotations
import ast, z3
from . import logic as L
from .values import *
from .interp import Interp

_minus = None
_plus = None


def bag_union(a, b):
    global _plus
    if _plus is None:
        x, y = z3.Ints("x y")
        _plus = (x + y).decl()
    return z3.Map(_plus, a, b)


def bag_minus(a, b):
    global _minus
    if _minus is None:
        x, y = z3.Ints("x y")
        _minus = (x - y).decl()
    return z3.Map(_minus, a, b)


class ABins:
    is_bins = True

    def __init__(self, nb, S, CNT, FST, CB, G, REM=None, name="bins"):
        self.nb, self.S, self.CNT, self.FST, self.CB, self.G = nb, S, CNT, FST, CB, G
        self.REM = REM if REM is not None else L.EMPTY
        self.consumed = False
        self.name = name

    @staticmethod
    def fresh(name):
        return ABins(L.fresh(name + "_nb", L.IntS), L.fresh(name + "_S", L.RSeq), L.fresh(name + "_CNT", L.NSeq), L.fresh(name + "_FST", L.RSeq),
                     L.fresh(name + "_CB", L.BagSeq), L.fresh(name + "_G", L.Bag), L.fresh(name + "_REM", L.Bag), name)

    def fresh_like(self, name):
        return ABins.fresh(name)

    def assign_from(self, o):
        self.nb, self.S, self.CNT, self.FST, self.CB, self.G, self.REM = o.nb, o.S, o.CNT, o.FST, o.CB, o.G, o.REM

    def snapshot(self):
        return ABins(self.nb, self.S, self.CNT, self.FST, self.CB, self.G, self.REM, self.name)

    def wf(self):
        j = L.fresh("j", L.IntS)
        return z3.ForAll([j], z3.Implies(z3.And(0 <= j, j < self.nb),
                                         z3.And(self.S[j] == L.btot(self.CB[j]), self.CNT[j] == L.bcard(self.CB[j]))))

    def use(self):
        if self.consumed:
            raise Unsupported("OWNERSHIP: a bins-array is used after being handed to add_empty_bins / remove_bins / concatenate_bins")


class SumsView:
    """binner.sums(b): read-only view of the sums"""
    def __init__(self, b: ABins):
        self.b = b

    def pos(self, it, idx):
        b = self.b
        b.use()
        if isinstance(idx, int) and not isinstance(idx, bool):
            ok = (z3.IntVal(idx) < b.nb) if idx >= 0 else (z3.IntVal(-idx) <= b.nb)
            p = z3.IntVal(idx) if idx >= 0 else b.nb + idx
        elif isinstance(idx, SV) and L.is_int(idx.t):
            ok = z3.And(idx.t >= -b.nb, idx.t < b.nb)
            p = z3.If(idx.t >= 0, idx.t, b.nb + idx.t)
        else:
            raise Unsupported("index into sums")
        if not it.branch(ok):
            raise RaiseSig(ExcV("IndexError", ("index out of bounds for sums",)))
        return z3.simplify(p)

    def vc_getitem(self, it, idx):
        return SV(z3.Select(self.b.S, self.pos(it, idx)))

    def vc_setitem(self, it, idx, v):
        raise Unsupported("INTERFACE: store through binner.sums(bins) (the view is read-only)")

    def vc_getattr(self, it, name):
        if name == "__getitem__":
            return Builtin("sums.__getitem__", lambda it, a, k: self.vc_getitem(it, a[0]))
        raise Unsupported("sums." + name)

    def vc_len(self, it):
        return SV(self.b.nb)

    def vc_totuple(self, it):
        return SSeq(self.b.S, z3.IntVal(0), self.b.nb, "num", "sums")

    vc_tolist = vc_totuple


def is_valueof(f):
    return isinstance(f, Builtin) and f.name == "binner.valueof"


class ABinner:
    """the abstract Binner: every method is its contract"""
    is_abstract_binner = True

    def __init__(self, keeps_contents=None):
        self.keeps_contents = keeps_contents

    def vc_getattr(self, it, name):
        m = getattr(self, "m_" + name, None)
        if m is None:
            raise Unsupported(f"Binner.{name} has no contract")
        return Builtin("binner." + name, lambda it, a, k: m(it, *a, **k))

    # --- valueof: pure total function on items (A6)
    def m_valueof(self, it, item):
        if isinstance(item, ItemV):
            return SV(L.val(item.t))
        raise Unsupported("valueof applied to a non-item")

    def m_new_bins(self, it, numbins):
        n = term_of(numbins)
        if isinstance(numbins, int):
            if numbins < 0:
                raise RaiseSig(ExcV("ValueError", ("negative dimensions",)))
        else:
            if it.branch(n < 0):
                raise RaiseSig(ExcV("ValueError", ("negative dimensions",)))
        it.assume(L.btot_empty())
        return ABins(n, z3.K(L.IntS, z3.RealVal(0)), z3.K(L.IntS, z3.IntVal(0)), z3.K(L.IntS, z3.RealVal(0)), z3.K(L.IntS, L.EMPTY), L.EMPTY, L.EMPTY, "new_bins")

    def m_copy_bins(self, it, bins):
        bins.use()
        return bins.snapshot()

    def _index(self, it, b, idx):
        return SumsView(b).pos(it, idx)

    def m_add_item_to_bin(self, it, bins, item, bin_index):
        if not isinstance(bins, ABins):
            raise Unsupported("add_item_to_bin on a non-bins value")
        bins.use()
        if not isinstance(item, ItemV):
            raise Unsupported("add_item_to_bin with a non-item")
        j = self._index(it, bins, bin_index)
        x = item.t
        it.assume(L.btot_add(bins.CB[j], x))
        bins.FST = z3.Store(bins.FST, j, z3.If(bins.CNT[j] == 0, L.val(x), bins.FST[j]))
        bins.S = z3.Store(bins.S, j, bins.S[j] + L.val(x))
        bins.CNT = z3.Store(bins.CNT, j, bins.CNT[j] + 1)
        bins.CB = z3.Store(bins.CB, j, L.badd(bins.CB[j], x))
        bins.G = L.badd(bins.G, x)
        return bins

    def m_add_empty_bins(self, it, bins, numbins):
        bins.use()
        if not isinstance(numbins, int) or numbins < 0 or numbins > 4:
            raise Unsupported("add_empty_bins with a symbolic / large count")
        r = bins.snapshot()
        for k in range(numbins):
            r.S = z3.Store(r.S, r.nb, z3.RealVal(0))
            r.CNT = z3.Store(r.CNT, r.nb, z3.IntVal(0))
            r.CB = z3.Store(r.CB, r.nb, L.EMPTY)
            r.nb = z3.simplify(r.nb + 1)
        it.assume(L.btot_empty())
        bins.consumed = True
        r.name = "add_empty_bins"
        return r

    def m_remove_bins(self, it, bins, numbins):
        bins.use()
        if numbins != 1:
            raise Unsupported("remove_bins with a count other than 1")
        if not it.branch(bins.nb >= 1):
            # numpy: bins[0:len(bins)-1] on an empty array is empty again; no exception
            r = bins.snapshot()
            bins.consumed = True
            return r
        r = bins.snapshot()
        last = bins.CB[bins.nb - 1]
        r.nb = z3.simplify(bins.nb - 1)
        r.G = bag_minus(bins.G, last)
        r.REM = bag_union(bins.REM, last)
        # btot is additive on finite bags (definition)
        it.assume(L.btot(r.REM) == L.btot(bins.REM) + L.btot(last))
        bins.consumed = True
        r.name = "remove_bins"
        return r

    def m_sums(self, it, bins):
        if not isinstance(bins, ABins):
            raise Unsupported("sums() of a non-bins value")
        bins.use()
        return SumsView(bins)

    def m_numbins(self, it, bins):
        bins.use()
        return SV(bins.nb)

    def m_sort_by_ascending_sum(self, it, bins):
        bins.use()
        n = bins.nb
        new = ABins.fresh("sorted")
        pi = L.fresh("pi", L.NSeq)       # permutation witness
        j, l = L.fresh("j", L.IntS), L.fresh("l", L.IntS)
        rng = lambda x: z3.And(0 <= x, x < n)
        it.assume(z3.ForAll([j], z3.Implies(rng(j), z3.And(rng(pi[j]), new.S[j] == bins.S[pi[j]], new.CNT[j] == bins.CNT[pi[j]],
                                                          new.FST[j] == bins.FST[pi[j]], new.CB[j] == bins.CB[pi[j]]))))
        it.assume(z3.ForAll([j, l], z3.Implies(z3.And(rng(j), rng(l), j != l), pi[j] != pi[l])))
        it.assume(z3.ForAll([j, l], z3.Implies(z3.And(0 <= j, j <= l, l < n), new.S[j] <= new.S[l])))
        bins.S, bins.CNT, bins.FST, bins.CB = new.S, new.CNT, new.FST, new.CB
        bins.perm = pi
        return None

    def m_combine_bins(self, it, b1, i1, b2, i2):
        b1.use()
        b2.use()
        j1, j2 = self._index(it, b1, i1), self._index(it, b2, i2)
        add = b2.CB[j2]
        it.assume(z3.And(L.btot(bag_union(b1.CB[j1], add)) == L.btot(b1.CB[j1]) + L.btot(add),
                         L.bcard(bag_union(b1.CB[j1], add)) == L.bcard(b1.CB[j1]) + L.bcard(add)))
        b1.FST = z3.Store(b1.FST, j1, z3.If(b1.CNT[j1] == 0, b2.FST[j2], b1.FST[j1]))
        b1.S = z3.Store(b1.S, j1, b1.S[j1] + b2.S[j2])
        b1.CNT = z3.Store(b1.CNT, j1, b1.CNT[j1] + b2.CNT[j2])
        b1.CB = z3.Store(b1.CB, j1, bag_union(b1.CB[j1], add))
        b1.G = bag_union(b1.G, add)
        return None

    def m_numitems(self, it, bins, bin_index):
        if self.keeps_contents is True:
            return SV(z3.Select(bins.CNT, self._index(it, bins, bin_index)))
        if self.keeps_contents is False:
            raise RaiseSig(ExcV("NotImplementedError"))
        raise Unsupported("numitems on an unspecified manager")
