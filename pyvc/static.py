"""Frame / purity / clock discipline checker (DESIGN 3.4): syntactic judgements over the real AST of /repo, re-read on every run.
They decide, for ALL paths and ALL sizes (no loop bound exists for a syntactic judgement):

  frame     modifies(f) is a subset of fresh(f): no parameter that the caller owns (items, sums, bins handed to a pure operation) is
            written, directly, through an alias, or through a callee (inter-procedural summaries, fixpoint);
  purity    no function writes or memoises module-level state (global statements, mutation of module-level containers, function
            attributes, lru_cache), no mutable default argument is mutated: the result is a function of the arguments only;
  clock     a value read from time.perf_counter() flows only into the time-limit test (and logging).

The analysis is conservative: aliasing is over-approximated (may-alias sets joined over branches, two loop iterations), unknown callees
are assumed not to write their arguments (recorded as an assumption), attribute stores on `self` are object-local state."""
from __future__ import annotations
import ast, os
from .report import Ob, PROVED, REFUTED, UNDECIDED, REPO

MUTATING_METHODS = {"append", "extend", "insert", "remove", "pop", "sort", "reverse", "add", "clear", "update", "discard", "setdefault", "popitem", "fill", "put",
                    "__setitem__", "__delitem__", "resize", "itemset"}
BINNER_MUTATORS = {"add_item_to_bin": [0], "combine_bins": [0], "sort_by_ascending_sum": [0]}
ALIAS_RETURNING = {"add_item_to_bin": 0, "sums": 0}
MUTABLE_CTORS = {"list", "dict", "set", "defaultdict", "Counter", "OrderedDict", "deque", "zeros", "array", "empty", "ones", "bytearray"}
MEMO_DECORATORS = {"lru_cache", "cache", "cached_property", "memoize"}


def repo_modules(repo):
    out = []
    root = os.path.join(repo, "prtpy")
    for d, _, files in os.walk(root):
        if "alternatives" in d:
            continue
        for f in sorted(files):
            if f.endswith(".py"):
                out.append(os.path.relpath(os.path.join(d, f), repo))
    return sorted(out)


class Fn:
    def __init__(self, mod, qual, node, cls=None):
        self.mod, self.qual, self.node, self.cls = mod, qual, node, cls
        a = node.args
        self.params = [p.arg for p in a.posonlyargs + a.args] + ([a.vararg.arg] if a.vararg else []) + [p.arg for p in a.kwonlyargs] + ([a.kwarg.arg] if a.kwarg else [])
        self.mutated = {}          # param -> (line, why)   (summary)
        self.locals = set(self.params)
        for n in ast.walk(node):
            if isinstance(n, ast.Name) and isinstance(n.ctx, (ast.Store, ast.Del)):
                self.locals.add(n.id)
            elif isinstance(n, (ast.FunctionDef, ast.ClassDef)) and n is not node:
                self.locals.add(n.name)
            elif isinstance(n, (ast.Import, ast.ImportFrom)):
                for al in n.names:
                    self.locals.add((al.asname or al.name).split(".")[0])

    @property
    def key(self):
        return f"{self.mod}::{self.qual}"


class Analysis:
    def __init__(self, repo=REPO):
        self.repo = repo
        self.fns: dict[str, Fn] = {}
        self.by_name: dict[str, list[Fn]] = {}
        self.module_mutables: dict[str, dict[str, int]] = {}
        self.module_names: dict[str, set] = {}
        self.unknown_callees = set()
        self.trees = {}
        self.import_alias = {}
        for m in repo_modules(repo):
            src = open(os.path.join(repo, m)).read()
            tree = ast.parse(src)
            self.trees[m] = tree
            self.module_mutables[m], self.module_names[m] = {}, set()
            self.import_alias.setdefault(m, {})
            for st in ast.walk(tree):
                if isinstance(st, ast.ImportFrom):
                    for al in st.names:
                        if al.asname:
                            self.import_alias[m][al.asname] = al.name
            for st in tree.body:
                if isinstance(st, ast.If) and "__name__" in ast.unparse(st.test):
                    continue
                targets = []
                if isinstance(st, ast.Assign):
                    targets, val = st.targets, st.value
                elif isinstance(st, ast.AnnAssign) and st.value is not None:
                    targets, val = [st.target], st.value
                for t in targets:
                    if isinstance(t, ast.Name):
                        self.module_names[m].add(t.id)
                        if self.is_mutable_ctor(val):
                            self.module_mutables[m][t.id] = st.lineno
            self.collect(tree, m, "", None)
        self.summaries()

    @staticmethod
    def is_mutable_ctor(e):
        if isinstance(e, (ast.List, ast.Dict, ast.Set, ast.ListComp, ast.DictComp, ast.SetComp)):
            return True
        if isinstance(e, ast.Call):
            f = e.func
            name = f.id if isinstance(f, ast.Name) else f.attr if isinstance(f, ast.Attribute) else ""
            return name in MUTABLE_CTORS
        return False

    def collect(self, node, mod, qual, cls):
        for ch in ast.iter_child_nodes(node):
            if isinstance(ch, ast.If) and isinstance(node, ast.Module) and "__name__" in ast.unparse(ch.test):
                continue
            if isinstance(ch, ast.FunctionDef):
                q = (qual + "." if qual else "") + ch.name
                fn = Fn(mod, q, ch, cls)
                self.fns[fn.key] = fn
                self.by_name.setdefault(ch.name, []).append(fn)
                self.collect(ch, mod, q, None)
            elif isinstance(ch, ast.ClassDef):
                self.collect(ch, mod, (qual + "." if qual else "") + ch.name, ch.name)
            else:
                self.collect(ch, mod, qual, cls)

    # ------------------------------------------------------------------ alias analysis + mutation summaries
    def summaries(self):
        changed, rounds = True, 0
        while changed and rounds < 8:
            changed, rounds = False, rounds + 1
            for fn in self.fns.values():
                before = set(fn.mutated)
                self.analyse_fn(fn)
                if set(fn.mutated) != before:
                    changed = True

    def resolve(self, fn: Fn, call: ast.Call):
        """candidate callee Fns of a call (by simple name; methods by attribute name); offset = 1 when `self` is implicit"""
        f = call.func
        if isinstance(f, ast.Name):
            name = self.import_alias.get(fn.mod, {}).get(f.id, f.id)
            cands = [c for c in self.by_name.get(name, []) if c.cls is None]
            return [(c, 0) for c in cands]
        if isinstance(f, ast.Attribute):
            cands = self.by_name.get(f.attr, [])
            out = []
            for c in cands:
                if c.cls is not None:
                    is_static = any(ast.unparse(d) in ("staticmethod",) for d in c.node.decorator_list)
                    out.append((c, 0 if is_static else 1))
                else:
                    out.append((c, 0))        # module.function(...)
            return out
        return []

    def analyse_fn(self, fn: Fn):
        state = {p: frozenset([p]) for p in fn.params}
        self.fn = fn
        self.block(fn.node.body, state)

    def aliases(self, e, state):
        if isinstance(e, ast.Name):
            return state.get(e.id, frozenset())
        if isinstance(e, ast.Attribute):
            return self.aliases(e.value, state)
        if isinstance(e, ast.Subscript):
            return self.aliases(e.value, state)
        if isinstance(e, ast.Starred):
            return self.aliases(e.value, state)
        if isinstance(e, ast.IfExp):
            return self.aliases(e.body, state) | self.aliases(e.orelse, state)
        if isinstance(e, ast.BoolOp):
            r = frozenset()
            for v in e.values:
                r |= self.aliases(v, state)
            return r
        if isinstance(e, (ast.Tuple,)):
            r = frozenset()
            for v in e.elts:
                r |= self.aliases(v, state)
            return r
        if isinstance(e, ast.Call):
            f = e.func
            name = f.attr if isinstance(f, ast.Attribute) else f.id if isinstance(f, ast.Name) else ""
            if name in ALIAS_RETURNING and len(e.args) > ALIAS_RETURNING[name]:
                return self.aliases(e.args[ALIAS_RETURNING[name]], state)
            if name in ("keys", "values", "items", "__getitem__") and isinstance(f, ast.Attribute):
                return self.aliases(f.value, state)
            return frozenset()
        return frozenset()

    def mutate(self, e, state, line, why):
        for p in self.aliases(e, state):
            if p == "self":
                continue
            self.fn.mutated.setdefault(p, (line, why))

    def bind(self, tgt, al, state):
        if isinstance(tgt, ast.Name):
            state[tgt.id] = al
        elif isinstance(tgt, (ast.Tuple, ast.List)):
            for t in tgt.elts:
                self.bind(t, al, state)
        elif isinstance(tgt, ast.Starred):
            self.bind(tgt.value, al, state)
        elif isinstance(tgt, (ast.Subscript, ast.Attribute)):
            base = tgt.value
            if isinstance(tgt, ast.Attribute) and isinstance(base, ast.Name) and base.id == "self":
                return
            self.mutate(base, state, tgt.lineno, f"store into {ast.unparse(tgt)}")

    def visit_expr(self, e, state):
        for n in ast.walk(e):
            if isinstance(n, ast.Call):
                f = n.func
                name = f.attr if isinstance(f, ast.Attribute) else f.id if isinstance(f, ast.Name) else ""
                if isinstance(f, ast.Attribute) and name in MUTATING_METHODS:
                    self.mutate(f.value, state, n.lineno, f"call of .{name}()")
                if name in BINNER_MUTATORS:
                    for k in BINNER_MUTATORS[name]:
                        if k < len(n.args):
                            self.mutate(n.args[k], state, n.lineno, f"binner.{name}()")
                    continue
                cands = self.resolve(self.fn, n)
                if not cands and name and not name[0].isupper():
                    self.unknown_callees.add(name)
                for callee, off in cands:
                    for k, a in enumerate(n.args):
                        idx = k + off
                        if idx < len(callee.params) and callee.params[idx] in callee.mutated:
                            self.mutate(a, state, n.lineno, f"passed to {callee.qual}() which writes its parameter '{callee.params[idx]}'")
                    for kw in n.keywords:
                        if kw.arg in callee.mutated:
                            self.mutate(kw.value, state, n.lineno, f"passed to {callee.qual}() which writes its parameter '{kw.arg}'")

    def block(self, stmts, state):
        for st in stmts:
            self.stmt(st, state)

    def join(self, a, b):
        out = dict(a)
        for k, v in b.items():
            out[k] = out.get(k, frozenset()) | v
        return out

    def stmt(self, st, state):
        if isinstance(st, ast.Assign):
            self.visit_expr(st.value, state)
            al = self.aliases(st.value, state)
            for t in st.targets:
                self.bind(t, al, state)
        elif isinstance(st, ast.AnnAssign):
            if st.value is not None:
                self.visit_expr(st.value, state)
                self.bind(st.target, self.aliases(st.value, state), state)
        elif isinstance(st, ast.AugAssign):
            self.visit_expr(st.value, state)
            if isinstance(st.target, (ast.Subscript, ast.Attribute)):
                self.bind(st.target, frozenset(), state)
            elif isinstance(st.target, ast.Name) and isinstance(st.value, (ast.List, ast.ListComp)) and isinstance(st.op, ast.Add):
                self.mutate(st.target, state, st.lineno, "in-place += on a list")
        elif isinstance(st, ast.Delete):
            for t in st.targets:
                if isinstance(t, (ast.Subscript, ast.Attribute)):
                    self.mutate(t.value, state, st.lineno, f"del {ast.unparse(t)}")
        elif isinstance(st, ast.Expr):
            self.visit_expr(st.value, state)
        elif isinstance(st, ast.Return):
            if st.value is not None:
                self.visit_expr(st.value, state)
        elif isinstance(st, ast.If):
            self.visit_expr(st.test, state)
            s1, s2 = dict(state), dict(state)
            self.block(st.body, s1)
            self.block(st.orelse, s2)
            state.clear()
            state.update(self.join(s1, s2))
        elif isinstance(st, (ast.For, ast.While)):
            if isinstance(st, ast.For):
                self.visit_expr(st.iter, state)
            else:
                self.visit_expr(st.test, state)
            for _ in range(2):
                s1 = dict(state)
                if isinstance(st, ast.For):
                    self.bind(st.target, self.aliases(st.iter, s1), s1)
                self.block(st.body, s1)
                j = self.join(state, s1)
                state.clear()
                state.update(j)
            self.block(st.orelse, state)
        elif isinstance(st, ast.Try):
            self.block(st.body, state)
            for h in st.handlers:
                self.block(h.body, state)
            self.block(st.orelse, state)
            self.block(st.finalbody, state)
        elif isinstance(st, ast.With):
            for i in st.items:
                self.visit_expr(i.context_expr, state)
            self.block(st.body, state)
        elif isinstance(st, (ast.Raise, ast.Assert)):
            for ch in ast.iter_child_nodes(st):
                if isinstance(ch, ast.expr):
                    self.visit_expr(ch, state)
        # nested defs are analysed as their own functions (closure writes to enclosing params are not tracked: none in the tree)

    # ------------------------------------------------------------------ rules
    def global_state(self, fn: Fn):
        """(status, detail): writes / memoisation of module-level state inside a function"""
        probs = []
        mutables = self.module_mutables[fn.mod]
        modnames = self.module_names[fn.mod]
        for n in _walk_fn(fn.node):
            if isinstance(n, (ast.Global, ast.Nonlocal)):
                probs.append((n.lineno, f"{type(n).__name__.lower()} {', '.join(n.names)}"))
            elif isinstance(n, (ast.Subscript, ast.Attribute)) and isinstance(n.ctx, (ast.Store, ast.Del)):
                b = n.value
                while isinstance(b, (ast.Subscript, ast.Attribute)):
                    b = b.value
                if isinstance(b, ast.Name) and b.id not in fn.locals and (b.id in modnames or b.id in self.by_name or b.id in mutables):
                    probs.append((n.lineno, f"store into module-level object: {ast.unparse(n)}"))
            elif isinstance(n, ast.Call) and isinstance(n.func, ast.Attribute) and n.func.attr in MUTATING_METHODS:
                b = n.func.value
                while isinstance(b, (ast.Subscript, ast.Attribute)):
                    b = b.value
                if isinstance(b, ast.Name) and b.id not in fn.locals and b.id in mutables:
                    probs.append((n.lineno, f"mutation of the module-level container '{b.id}' (defined at line {mutables[b.id]}): {ast.unparse(n)[:60]}"))
        # objectives, output types and bins-managers are stateless by design (module-level singletons are shared by all calls):
        # a method other than __init__ that stores into `self` keeps state across calls
        if fn.cls is not None and fn.node.name != "__init__" and any(k in fn.mod for k in ("objectives.py", "outputtypes.py", "binners.py", "adaptors.py")):
            for n in _walk_fn(fn.node):
                if isinstance(n, ast.Attribute) and isinstance(n.ctx, (ast.Store, ast.Del)) and isinstance(n.value, ast.Name) and n.value.id in ("self", "cls"):
                    probs.append((n.lineno, f"state kept on the (shared) object across calls: {ast.unparse(n)} written outside __init__"))
        # the manager, the objective and the output type are the caller's objects (often shared singletons): an algorithm stores nothing into them
        for n in _walk_fn(fn.node):
            if isinstance(n, ast.Attribute) and isinstance(n.ctx, (ast.Store, ast.Del)) and isinstance(n.value, ast.Name) and \
                    n.value.id in fn.params and n.value.id in ("binner", "objective", "outputtype", "algorithm"):
                probs.append((n.lineno, f"state stored into the caller's {n.value.id} object: {ast.unparse(n)}"))
        for d in fn.node.decorator_list:
            dn = ast.unparse(d)
            if any(m in dn for m in MEMO_DECORATORS):
                probs.append((fn.node.lineno, f"memoising decorator @{dn}"))
        return probs

    BINS_SOURCES = {"new_bins", "copy_bins", "add_empty_bins", "remove_bins", "concatenate_bins", "add_item_to_bin"}

    def interface_breaches(self, fn: Fn):
        """a bins-array obtained from the caller's manager is used only through that manager's interface (C06): never subscripted, measured with
        len(), iterated or unpacked by an algorithm.  Bins of a manager the function created itself (a local BinnerKeepingContents) are its own."""
        if fn.mod.endswith("binners.py") or fn.mod.endswith("outputtypes.py"):
            return None
        own_binners = set()
        bins_vars = set()
        for n in _walk_fn(fn.node):
            if isinstance(n, ast.Assign) and isinstance(n.value, ast.Call):
                f = n.value.func
                callee = f.attr if isinstance(f, ast.Attribute) else f.id if isinstance(f, ast.Name) else ""
                if callee.startswith("BinnerKeeping"):
                    for t in n.targets:
                        if isinstance(t, ast.Name) and t.id != "binner":
                            own_binners.add(t.id)
        for _ in range(2):
            for n in _walk_fn(fn.node):
                if isinstance(n, ast.Assign):
                    v = n.value
                    src = None
                    if isinstance(v, ast.Call) and isinstance(v.func, ast.Attribute) and v.func.attr in self.BINS_SOURCES and isinstance(v.func.value, ast.Name) \
                            and v.func.value.id == "binner":
                        src = True
                    elif isinstance(v, ast.Call) and ast.unparse(v.func) in ("copy.deepcopy", "deepcopy") and v.args and isinstance(v.args[0], (ast.Name, ast.Attribute)) \
                            and ast.unparse(v.args[0]) in bins_vars:
                        src = True
                    elif isinstance(v, (ast.Name, ast.Attribute)) and ast.unparse(v) in bins_vars:
                        src = True
                    if src:
                        for t in n.targets:
                            if isinstance(t, (ast.Name, ast.Attribute)):
                                bins_vars.add(ast.unparse(t))
        if "bins" in fn.params:
            bins_vars.add("bins")
        probs = []
        for n in _walk_fn(fn.node):
            if isinstance(n, ast.Subscript) and ast.unparse(n.value) in bins_vars:
                probs.append((n.lineno, f"bins-array subscripted outside its manager: {ast.unparse(n)}"))
            elif isinstance(n, ast.Call) and isinstance(n.func, ast.Name) and n.func.id in ("len", "list", "tuple", "sum", "max", "min", "sorted") and n.args \
                    and ast.unparse(n.args[0]) in bins_vars:
                probs.append((n.lineno, f"bins-array inspected outside its manager: {ast.unparse(n)}"))
            elif isinstance(n, (ast.For, ast.comprehension)) and ast.unparse(n.iter) in bins_vars:
                probs.append((n.lineno, f"bins-array iterated outside its manager: {ast.unparse(n.iter)}"))
            elif isinstance(n, ast.Assign) and isinstance(n.targets[0], (ast.Tuple, ast.List)) and ast.unparse(n.value) in bins_vars:
                probs.append((n.lineno, f"bins-array unpacked outside its manager: {ast.unparse(n)}"))
        return probs if bins_vars else None

    ITEMSEQ_MAKERS = {"sorted", "list", "reversed", "tuple", "find_diff", "list_without_items", "copy"}

    def opacity_breaches(self, fn: Fn):
        """C07, syntactic: the elements of the `items` argument are opaque - they may be passed to valueof / add_item_to_bin, stored, compared
        for equality, counted; they may NOT be operands of arithmetic or ordering, nor summed / sorted / min-maxed without valueof.
        Intra-procedural: a name is an item sequence if it is `items` (or a copy / sort / slice / filter of one), an item if it is an element of one."""
        if "items" not in fn.params and "item" not in fn.params and "sorted_items" not in fn.params:
            return None
        seqs = {p for p in fn.params if p in ("items", "sorted_items", "item_names")}
        elems = {p for p in fn.params if p == "item"}
        is_seq = lambda e: (isinstance(e, ast.Name) and e.id in seqs) or (isinstance(e, ast.Attribute) and ast.unparse(e) in seqs) or \
            (isinstance(e, ast.Subscript) and isinstance(e.slice, ast.Slice) and is_seq(e.value)) or \
            (isinstance(e, ast.Call) and ((isinstance(e.func, ast.Name) and e.func.id in self.ITEMSEQ_MAKERS) or (isinstance(e.func, ast.Attribute) and e.func.attr in ("copy", "keys"))) and
             e.args and is_seq(e.args[0]) if isinstance(e, ast.Call) and e.args else False) or \
            (isinstance(e, (ast.ListComp, ast.GeneratorExp)) and isinstance(e.elt, ast.Name) and any(is_seq(g.iter) and isinstance(g.target, ast.Name) and g.target.id == e.elt.id for g in e.generators))
        is_elem = lambda e: (isinstance(e, ast.Name) and e.id in elems) or (isinstance(e, ast.Subscript) and not isinstance(e.slice, ast.Slice) and is_seq(e.value))
        for _ in range(3):
            for n in _walk_fn(fn.node):
                if isinstance(n, ast.Assign) and len(n.targets) == 1 and isinstance(n.targets[0], (ast.Name, ast.Attribute)):
                    t = ast.unparse(n.targets[0])
                    if is_seq(n.value):
                        seqs.add(t)
                    elif is_elem(n.value) or (isinstance(n.value, ast.Call) and isinstance(n.value.func, ast.Attribute) and n.value.func.attr == "pop" and is_seq(n.value.func.value)):
                        elems.add(t)
                elif isinstance(n, (ast.For, ast.comprehension)) and is_seq(n.iter) and isinstance(n.target, ast.Name):
                    elems.add(n.target.id)
        probs = []
        for n in _walk_fn(fn.node):
            if isinstance(n, ast.BinOp) and (is_elem(n.left) or is_elem(n.right)):
                probs.append((n.lineno, f"arithmetic on an item: {ast.unparse(n)[:50]}"))
            elif isinstance(n, ast.Compare) and any(isinstance(o, (ast.Lt, ast.LtE, ast.Gt, ast.GtE)) for o in n.ops) and any(is_elem(x) for x in [n.left] + n.comparators):
                probs.append((n.lineno, f"numeric comparison of an item: {ast.unparse(n)[:50]}"))
            elif isinstance(n, ast.Call) and isinstance(n.func, ast.Name) and n.func.id in ("sum", "abs", "int", "float", "round") and n.args and (is_seq(n.args[0]) or is_elem(n.args[0])):
                probs.append((n.lineno, f"{n.func.id}() of items instead of their values: {ast.unparse(n)[:50]}"))
            elif isinstance(n, ast.Call) and isinstance(n.func, ast.Name) and n.func.id in ("sorted", "min", "max") and n.args and is_seq(n.args[0]) and \
                    not any(k.arg == "key" for k in n.keywords):
                probs.append((n.lineno, f"{n.func.id}() of items without key=valueof: {ast.unparse(n)[:50]}"))
            elif isinstance(n, ast.AugAssign) and is_elem(n.value):
                probs.append((n.lineno, f"arithmetic on an item: {ast.unparse(n)[:50]}"))
        return probs

    def mutable_defaults(self, fn: Fn):
        probs = []
        a = fn.node.args
        pos = a.posonlyargs + a.args
        for p, d in list(zip(pos[len(pos) - len(a.defaults):], a.defaults)) + [(p, d) for p, d in zip(a.kwonlyargs, a.kw_defaults) if d is not None]:
            if self.is_mutable_ctor(d) and p.arg in fn.mutated:
                probs.append((d.lineno, f"mutable default of '{p.arg}' is written at line {fn.mutated[p.arg][0]} (state that survives the call)"))
        return probs

    def clock(self, fn: Fn):
        """values derived from time.perf_counter() may flow only into the limit test (a comparison in an if/while test) and logging"""
        src = ast.unparse(fn.node)
        if "perf_counter" not in src and "start_time" not in src and "end_time" not in src:
            return None
        tainted = set()
        is_clock = lambda e: any(isinstance(n, ast.Call) and "perf_counter" in ast.unparse(n.func) for n in ast.walk(e))
        def uses(e):
            skip = set()
            for n in ast.walk(e):       # handing the start time / limit to the search object is not a use of the clock value
                if isinstance(n, ast.Call):
                    for k in n.keywords:
                        if k.arg in ("start_time", "time_limit"):
                            skip.update(id(x) for x in ast.walk(k.value))
            return any(id(n) not in skip and ((isinstance(n, ast.Name) and n.id in tainted) or (isinstance(n, ast.Attribute) and n.attr in tainted_attrs))
                       for n in ast.walk(e))
        tainted_attrs = {"start_time"} if fn.cls else set()
        for _ in range(3):
            for n in _walk_fn(fn.node):
                if isinstance(n, ast.Assign) and (is_clock(n.value) or uses(n.value)):
                    for t in n.targets:
                        if isinstance(t, ast.Name):
                            tainted.add(t.id)
                        elif isinstance(t, ast.Attribute):
                            tainted_attrs.add(t.attr)
        probs = []
        allowed = set()
        for n in _walk_fn(fn.node):
            if isinstance(n, (ast.If, ast.While)):
                for c in ast.walk(n.test):
                    if isinstance(c, ast.Compare):
                        for x in ast.walk(c):
                            allowed.add(id(x))
            elif isinstance(n, ast.Assign) and (is_clock(n.value) or uses(n.value)):
                for x in ast.walk(n.value):
                    allowed.add(id(x))
            elif isinstance(n, ast.Call) and isinstance(n.func, ast.Attribute) and ("logg" in ast.unparse(n.func.value)):
                for x in ast.walk(n):
                    allowed.add(id(x))
            elif isinstance(n, ast.Call) and any(k.arg in ("start_time", "time_limit") for k in n.keywords):
                for k in n.keywords:
                    if k.arg in ("start_time", "time_limit"):
                        for x in ast.walk(k.value):
                            allowed.add(id(x))
        for n in _walk_fn(fn.node):
            bad = (isinstance(n, ast.Name) and isinstance(n.ctx, ast.Load) and n.id in tainted) or \
                  (isinstance(n, ast.Call) and "perf_counter" in ast.unparse(n.func)) or \
                  (isinstance(n, ast.Attribute) and isinstance(n.ctx, ast.Load) and n.attr in tainted_attrs and n.attr != "time_limit")
            if bad and id(n) not in allowed:
                probs.append((n.lineno, f"clock-derived value '{ast.unparse(n)}' used outside the time-limit test"))
        return probs


def _walk_fn(node):
    stack = list(node.body)
    while stack:
        n = stack.pop()
        yield n
        for ch in ast.iter_child_nodes(n):
            if isinstance(ch, (ast.FunctionDef, ast.ClassDef)):
                continue
            stack.append(ch)


ENTRY_PARAMS = {"items": "the item collection", "sums": "the sums vector", "current_sums": "the sums vector", "bins1": None, "bins2": None}


def obligations(prop, repo=REPO, rules=("frame", "purity", "clock")):
    """static obligations for every function of the library that is reachable from prtpy.partition / prtpy.pack"""
    A = Analysis(repo)
    obs = []

    def ob(fn, rule, probs, what):
        st = PROVED if not probs else REFUTED
        detail = what if not probs else "; ".join(f"{fn.mod}:{l}: {w}" for l, w in probs[:3])
        o = Ob(id=f"{prop}/static/{fn.key.replace('prtpy/', '')}/{rule}", tier="static", status=st, function=fn.key, solver="static", detail=detail)
        if probs:
            o.witness = {"obligation": o.id, "function": fn.key, "sites": [{"line": l, "what": w} for l, w in probs],
                         "site_key": " ; ".join(sorted({w for l, w in probs}))}          # (without line numbers: a listed known finding is matched on it)
        obs.append(o)
    for fn in sorted(A.fns.values(), key=lambda f: f.key):
        if "frame" in rules:
            is_algorithm = "items" in fn.params and list(fn.params)[:1] in (["binner"], ["algorithm"])     # the public signature (binner, numbins|binsize, items, options...)
            owned = [p for p in fn.params if p in ("items", "sums", "current_sums", "item_names") or
                     (is_algorithm and p not in ("binner", "self", "bins", "algorithm", "kwargs")) or      # every option the caller hands in (weights, copies, ...) is the caller's
                     (p in ("bins", "bins1", "bins2") and fn.node.name in ("copy_bins", "sums", "numbins", "numitems", "all_combinations", "extract_output_from_binsarray",
                                                                             "extract_output_from_sums", "extract_output_from_sums_and_lists", "value_to_minimize", "lower_bound")) or
                     (p == "bins2" and fn.node.name == "combine_bins")]
            if owned:
                probs = [(fn.mutated[p][0], f"caller-owned parameter '{p}' may be written: {fn.mutated[p][1]}") for p in owned if p in fn.mutated]
                ob(fn, "C15:caller-owned-arguments-never-written", probs, f"parameters {owned} are never written, directly, through an alias or through a callee")
        if "purity" in rules:
            ob(fn, "C15:no-module-level-state-written-or-memoised", A.global_state(fn), "no global/nonlocal, no store into or mutation of a module-level object, no memoising decorator")
            md = A.mutable_defaults(fn)
            if md or any(A.is_mutable_ctor(d) for d in fn.node.args.defaults):
                ob(fn, "C15:no-mutable-default-carrying-state", md, "mutable defaults are never written")
        if "interface" in rules:
            ib = A.interface_breaches(fn)
            if ib is not None:
                ob(fn, "C06:bins-used-only-through-the-manager-interface", ib, "bins-arrays are only passed to binner methods, stored, returned or deep-copied")
        if "opacity" in rules and ("/partitioning/" in fn.mod or "/packing/" in fn.mod or fn.mod.endswith("inclusion_exclusion_tree.py")) and "adaptors" not in fn.mod:
            op = A.opacity_breaches(fn)
            if op is not None:
                ob(fn, "C07:items-are-opaque(only-valueof-looks-inside)", op, "no arithmetic, numeric comparison, sum or keyless sort on the elements of `items`")
        if "clock" in rules:
            cp = A.clock(fn)
            if cp is not None:
                ob(fn, "C11:clock-flows-only-into-the-limit-test", cp, "every value derived from time.perf_counter() is used only in the time-limit comparison (and logging)")
    return obs, sorted(A.unknown_callees)
