"""Value domain of the symbolic interpreter (DESIGN Appendix C)."""
from __future__ import annotations
import z3
from fractions import Fraction
from . import logic as L

INF = float("inf")


class Unsupported(Exception):
    """the engine does not model this construct: obligations of the function become *undecided*, never a verdict"""


class OpacityViolation(Unsupported):
    """the code does arithmetic / numeric ordering on an ITEM instead of binner.valueof(item): with names unrelated to the values
    (dict input, names + valueof) this raises TypeError or silently computes with the names -- an obligation failure of C07"""


class PathEnd(Exception):
    """the current path ends here (cut at a loop back-edge, or infeasible)"""


class ReturnSig(Exception):
    def __init__(self, value):
        self.value = value


class BreakSig(Exception):
    pass


class ContinueSig(Exception):
    pass


class RaiseSig(Exception):
    """the interpreted program raised a Python exception"""
    def __init__(self, exc):
        self.exc = exc


class SV:
    """symbolic scalar: z3 Int / Real / Bool term"""
    __slots__ = ("t",)

    def __init__(self, t):
        self.t = t

    def __repr__(self):
        return f"SV({self.t})"


class ItemV:
    """an opaque item (sort Item); its value is val(item)"""
    __slots__ = ("t",)

    def __init__(self, t):
        self.t = t

    def __repr__(self):
        return f"Item({self.t})"


class SymStr:
    """an opaque string (f-string with symbolic parts); never inspected"""
    def __init__(self, parts=()):
        self.parts = parts


class ExcV:
    def __init__(self, cls, args=()):
        self.cls, self.args = cls, tuple(args)      # cls: python string name, e.g. 'ValueError'

    def __repr__(self):
        return f"{self.cls}(...)"


class ExcClass:
    def __init__(self, name, bases=("Exception",)):
        self.name, self.bases = name, bases

    def __repr__(self):
        return f"<exc {self.name}>"


class PList:
    """mutable list of concrete length"""
    def __init__(self, elems=None):
        self.elems = list(elems) if elems is not None else []

    def __repr__(self):
        return f"PList({self.elems})"


class PSet:
    def __init__(self, elems=None):
        self.elems = list(elems) if elems is not None else []


class PDict:
    def __init__(self):
        self.keys, self.vals = [], []


class SRange:
    def __init__(self, start, stop, step=1):
        self.start, self.stop, self.step = start, stop, step


class SSeq:
    """symbolic-length sequence: elements arr[lo..hi) ; mutable (del s[0], del s[-1], append); kind: 'item' | 'num'"""
    def __init__(self, arr, lo, hi, kind, name=""):
        self.arr, self.lo, self.hi, self.kind, self.name = arr, lo, hi, kind, name
        self.frozen = False

    @property
    def length(self):
        return z3.simplify(self.hi - self.lo)

    def snapshot(self):
        return SSeq(self.arr, self.lo, self.hi, self.kind, self.name)

    def wrap(self, term):
        return ItemV(term) if self.kind == "item" else SV(term)


class NdArr:
    """numpy 1-d array of concrete length: a window (off, n) on a shared buffer (slices are views)"""
    def __init__(self, buf, off=0, n=None):
        self.buf, self.off = buf, off
        self.n = len(buf) - off if n is None else n

    def get(self, i):
        return self.buf[self.off + i]

    def set(self, i, v):
        self.buf[self.off + i] = v

    def tolist(self):
        return [self.buf[self.off + i] for i in range(self.n)]


class Closure:
    def __init__(self, node, env, module, name, qualname=None, cls=None):
        self.node, self.env, self.module, self.name = node, env, module, name
        self.qualname = qualname or name
        self.cls = cls
        self.kind = "function"       # function | classmethod | staticmethod
        self.is_generator = None

    def __repr__(self):
        return f"<fn {self.qualname}>"


class BoundMethod:
    def __init__(self, self_, func):
        self.self_, self.func = self_, func


class Builtin:
    def __init__(self, name, fn):
        self.name, self.fn = name, fn

    def __repr__(self):
        return f"<builtin {self.name}>"


class ClassV:
    def __init__(self, name, bases, attrs, module):
        self.name, self.bases, self.attrs, self.module = name, bases, attrs, module
        self.dataclass_fields = None

    def mro(self):
        out = [self]
        for b in self.bases:
            if isinstance(b, ClassV):
                for c in b.mro():
                    if c not in out:
                        out.append(c)
        return out

    def lookup(self, name):
        for c in self.mro():
            if name in c.attrs:
                return c.attrs[name], c
        return None, None

    def issubclass(self, other):
        return other in self.mro()

    def __repr__(self):
        return f"<class {self.name}>"


class Obj:
    def __init__(self, cls):
        self.cls, self.attrs = cls, {}

    def __repr__(self):
        return f"<{self.cls.name} object>"


class ModuleV:
    def __init__(self, name, attrs=None):
        self.name, self.attrs = name, attrs if attrs is not None else {}

    def __repr__(self):
        return f"<module {self.name}>"


class SuperProxy:
    def __init__(self, obj, cls):
        self.obj, self.cls = obj, cls


class Env:
    __slots__ = ("vars", "parent", "qual")

    def __init__(self, parent=None):
        self.vars, self.parent, self.qual = {}, parent, ""

    def lookup(self, name):
        e = self
        while e is not None:
            if name in e.vars:
                return e.vars[name]
            e = e.parent
        raise KeyError(name)

    def has(self, name):
        e = self
        while e is not None:
            if name in e.vars:
                return True
            e = e.parent
        return False


def is_sym(v):
    return isinstance(v, SV)


def is_num(v):
    return isinstance(v, (int, float, Fraction)) and not isinstance(v, bool) or (isinstance(v, SV) and not L.is_bool(v.t)) or isinstance(v, bool)


def term_of(v):
    """z3 term of a numeric / boolean value"""
    if isinstance(v, SV):
        return v.t
    return L.to_z3(v)
