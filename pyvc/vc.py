"""Driver: verifies one function of /repo against its sidecar contract (all paths), aggregates obligations."""
from __future__ import annotations
import importlib, os, time, traceback, z3
from concurrent.futures import ProcessPoolExecutor, as_completed
import multiprocessing as mp
from . import logic as L
from .values import *
from .interp import Interp, Ctx, LoopSpec, ObResult
from .report import Ob, PROVED, REFUTED, UNDECIDED, REPO

NPROC = int(os.environ.get("VERIF_NPROC", "16"))


class FunctionContract:
    """sidecar contract of one repo function.  Subclasses define:
        target          'prtpy/partitioning/greedy.py::greedy'
        tier            'T1' (unbounded: symbolic lengths, loop invariants) or 'T2' (bounded shape, all values)
        shapes(tierlvl) iterable of shape descriptors for T2 (T1: [None])
        make_args(it, shape) -> dict name -> value ; calls it.assume(...) for the requires clauses
        post(ctx, kind, value) -> list of (name, formula): kind is 'return' or 'raise'
        loops           {ordinal: LoopSpec}
        calls           {(callee, ordinal): fn(ctx, args, kwargs) -> [(name, formula)]}
        uses            list of other FunctionContract instances applied at call sites (modular verification)
        min_obligations vacuity guard
    """
    target = ""
    tier = "T1"
    loops: dict = {}
    calls: dict = {}
    uses: list = []
    min_obligations = 1
    timeout_ms = 20000
    unroll_limit = 64
    hooks: dict = {}
    expect_raise = ()          # exception classes that are a declared outcome

    @property
    def fname(self):
        return self.target.split("::")[1]

    def shapes(self, level):
        return [None]

    def shape_text(self, shape):
        return "" if shape is None else str(shape)

    def make_args(self, it, shape):
        raise NotImplementedError

    def post(self, ctx, kind, value):
        return []

    # ---- modular use at a call site: check requires, havoc, assume ensures
    def requires_at_call(self, it, args):
        return []

    def apply_at_call(self, it, f, args, kwargs):
        raise Unsupported(f"contract of {self.target} has no call-site form")

    def witness(self, it, model, args):
        return None

    def install(self, it: Interp):
        fn = self.target
        for k, spec in self.loops.items():
            it.loopspecs[(fn, k)] = spec
        for (callee, k), f in self.calls.items():
            it.callspecs[(fn, callee, k)] = f
        for c in self.uses:
            it.contracts[c.target] = c
            if getattr(c, "writes_args", None) is not None:
                it.callee_frames[c.target.split("::")[1].split(".")[-1]] = set(c.writes_args)
            c.install_nested(it)
        it.hooks.update(self.hooks)
        it.root = fn
        it.unroll_limit = self.unroll_limit
        it.lazy_generators = getattr(self, "lazy_generators", False)

    def install_nested(self, it):
        for c in self.uses:
            it.contracts[c.target] = c


def model_text(m, limit=3000):
    try:
        s = ", ".join(f"{d.name()}={m[d]}" for d in sorted(m.decls(), key=lambda d: d.name()) if d.arity() == 0)
    except Exception:
        s = str(m)
    return s[:limit]


def run_path(contract: FunctionContract, shape, prefix, repo=REPO):
    """execute one path; returns (list of ObResult-dicts, forks, trusted, stats)"""
    L.reset_names()
    it = Interp(repo, prefix, timeout_ms=contract.timeout_ms)
    if contract.tier == "T2":
        it.feas_rlimit = getattr(contract, "feas_rlimit", 400000)      # quantifier-free queries: answers are definite and quick
    contract.install(it)
    obs, outcome = [], None
    fn = contract.fname
    tag = contract.shape_text(shape)
    try:
        f = it.get_function(contract.target)
        args = contract.make_args(it, shape)
        if it.check() == "unsat":
            # a contradictory precondition is a fault of the CONTRACT (nothing would be checked): undecided, never a verdict on the code
            it.obs.append(ObResult(f"{fn}/requires-satisfiable", "undecided", detail="the contract's precondition is contradictory for this shape (vacuous contract)"))
            raise PathEnd()
        old = {k: (v.snapshot() if hasattr(v, "snapshot") else v) for k, v in args.items()}
        it.entry_args = old
        it.frames.append((None, Env(), old))       # pseudo-frame: loop contracts read the entry arguments through it
        try:
            kwargs = dict(args)
            selfarg = kwargs.pop("__self__", None)
            pos = [selfarg] if selfarg is not None else []
            value = it.call(f, pos, kwargs)
            outcome = ("return", value)
            it.last_result = value
        except RaiseSig as r:
            outcome = ("raise", r.exc)
            it.last_result = r.exc
        it.frames.pop()
        ctx = Ctx(it, Env(), old)
        ctx.final = args
        for name, formula in contract.post(ctx, outcome[0], outcome[1]):
            it.prove(f"{fn}/{outcome[0] if outcome[0] == 'raise' else 'post'}/{name}", formula, kind="post")
        if not it.opacity_events:
            it.obs.append(ObResult(f"{fn}/C07:items-are-opaque(only-valueof-looks-inside)", "proved", detail="no arithmetic, numeric comparison or type test on an item on this path"))
        else:
            it.obs.append(ObResult(f"{fn}/C07:items-are-ordered-only-to-canonicalise", "proved", detail="; ".join(sorted(set(it.opacity_events))[:3])))
        if outcome[0] == "raise" and outcome[1].cls not in contract.expect_raise:
            e = outcome[1]
            it.prove(f"{fn}/no-unexpected-exception", z3.BoolVal(False), kind="exception",
                     detail=f"{e.cls} raised at line {getattr(e, 'line', it.cur_line)}")
    except PathEnd:
        pass
    except OpacityViolation as u:
        m = None
        try:
            if it.check() == "sat":
                m = it.solver.model()
        except Exception:
            pass
        it.obs.append(ObResult(f"{fn}/C07:items-are-opaque(only-valueof-looks-inside)", "refuted", detail=f"line {it.cur_line}: {u}", model=m, path=it.prefix[:it.pos], line=it.cur_line))
    except Unsupported as u:
        it.obs.append(ObResult(f"{fn}/modelled", "undecided", detail=f"line {it.cur_line}: {u}", path=it.prefix[:it.pos]))
    except RaiseSig as r:
        it.obs.append(ObResult(f"{fn}/modelled", "undecided", detail=f"exception {r.exc.cls} escaped the engine at line {it.cur_line}"))
    finally:
        it.kill_generators()
    res = []
    for o in it.obs:
        wit = None
        if o.status == "refuted" and o.model is not None:
            try:
                wit = contract.witness(it, o.model, getattr(it, "entry_args", {}))
                if isinstance(wit, dict) and getattr(it, "approximate", False):
                    wit["approximate"] = True
            except Exception as e:
                wit = None
        res.append({"id": o.id, "status": o.status, "time": o.time, "detail": o.detail, "kind": o.kind, "line": o.line,
                    "model": model_text(o.model) if o.model is not None else None, "path": list(o.path), "witness": wit, "shape": tag})
    xcheck = None
    if contract.tier == "T2" and outcome is not None and hasattr(contract, "real") and it.modular_calls == 0 and getattr(contract, "crosscheck", True) \
            and not getattr(it, "approximate", False):
        # CPython cross-check (DESIGN 10): a model of this path's condition, with the engine's predicted result, to be run on the real code
        try:
            it.solver.set("rlimit", 1500000)        # a model is welcome but not needed: bounded (deterministic) effort
            if it.check() == "sat":
                xcheck = contract.witness(it, it.solver.model(), getattr(it, "entry_args", {}))
        except Exception:
            xcheck = None
        finally:
            it.solver.set("rlimit", 0)
    stats = {"xcheck": xcheck, "queries": it.nqueries, "solver_time": it.solver_time, "outcome": outcome[0] if outcome else "cut", "steps": it.steps,
             "clock_reads": it.clock_reads, "attached": len(it.attached)}
    return res, it.forks, sorted(it.trusted), stats


def _task(cref, shape, prefix, repo):
    mod, name = cref
    contract = getattr(importlib.import_module(mod), name)
    try:
        return run_path(contract, shape, prefix, repo)
    except Exception:
        return [{"id": f"{contract.fname}/engine", "status": "crash", "time": 0, "detail": traceback.format_exc()[-1500:], "kind": "", "line": 0, "model": None,
                 "path": list(prefix), "witness": None, "shape": contract.shape_text(shape)}], [], [], {"queries": 0, "solver_time": 0, "outcome": "crash", "steps": 0, "clock_reads": 0, "attached": 0, "xcheck": None}


_POOL = None


def pool():
    global _POOL
    if _POOL is None:
        _POOL = ProcessPoolExecutor(max_workers=NPROC, mp_context=mp.get_context("fork"))
    return _POOL


class Result:
    def __init__(self, contract):
        self.contract = contract
        self.by_id = {}         # id -> dict(status, time, instances, detail, model, witness, kind)
        self.paths = 0
        self.trusted = set()
        self.queries = 0
        self.solver_time = 0.0
        self.outcomes = {}
        self.crashes = []
        self.shapes = []
        self.max_paths_hit = False
        self.xchecks = []

    def add(self, o):
        if o["status"] == "crash":
            self.crashes.append(o["detail"])
            return
        e = self.by_id.setdefault(o["id"], {"status": "proved", "time": 0.0, "instances": 0, "detail": "", "model": None, "witness": None, "kind": o["kind"], "line": o["line"], "shape": ""})
        e["instances"] += 1
        e["time"] += o["time"]
        rank = {"proved": 0, "undecided": 1, "refuted": 2}
        if o["status"] == "crash":
            self.crashes.append(o["detail"])
            return
        if rank[o["status"]] > rank[e["status"]]:
            e.update(status=o["status"], detail=o["detail"], model=o["model"], witness=o["witness"], line=o["line"], shape=o["shape"], path=o["path"])
        elif o["status"] == e["status"] and o["status"] != "proved" and not e["detail"]:
            e["detail"] = o["detail"]


def verify(cref, level="quick", repo=REPO, max_paths=20000, parallel=True, budget_s=None) -> Result:
    """explore every path of the function under its contract, for every shape of the level.
    budget_s: wall-clock budget for this contract; when it is exhausted no new path is started and the contract's obligations are
    reported as undecided (never as proved, never as a violation)."""
    if budget_s is None:
        budget_s = float(os.environ.get("PYVC_BUDGET_S", "2400" if level == "thorough" else "240"))
    t_start = time.time()
    mod, name = cref
    contract = getattr(importlib.import_module(mod), name)
    res = Result(contract)
    ex = pool() if parallel else None
    pending = {}
    shapes = list(contract.shapes(level if (level != "lite" or getattr(contract, "knows_lite", False)) else "quick"))
    res.shapes = [contract.shape_text(s) for s in shapes]

    def submit(shape, prefix):
        if ex is None:
            return None
        fut = ex.submit(_task, cref, shape, prefix, repo)
        pending[fut] = shape

    work = [(s, []) for s in shapes]
    if ex is None:
        while work:
            shape, prefix = work.pop()
            obs, forks, trusted, stats = _task(cref, shape, prefix, repo)
            _absorb(res, obs, trusted, stats)
            if res.paths >= max_paths:
                res.max_paths_hit = True
                break
            work.extend((shape, f) for f in forks)
        return res
    for s, p in work:
        submit(s, p)
    while pending:
        done = next(as_completed(list(pending)))
        shape = pending.pop(done)
        obs, forks, trusted, stats = done.result()
        _absorb(res, obs, trusted, stats)
        if time.time() - t_start > budget_s:
            res.max_paths_hit = True
            res.budget_exhausted = True
            for fut in list(pending):
                if fut.cancel():
                    pending.pop(fut, None)
            continue
        if res.paths + len(pending) < max_paths:
            for f in forks:
                submit(shape, f)
        elif forks:
            res.max_paths_hit = True
    return res


def _absorb(res, obs, trusted, stats):
    res.paths += 1
    res.trusted.update(trusted)
    res.queries += stats["queries"]
    res.solver_time += stats["solver_time"]
    res.outcomes[stats["outcome"]] = res.outcomes.get(stats["outcome"], 0) + 1
    if stats.get("xcheck") is not None and len(res.xchecks) < 400:
        res.xchecks.append(stats["xcheck"])
    for o in obs:
        res.add(o)


def to_obs(res: Result, prop: str, only=None, prefix="") -> list:
    """convert to report obligations.  `only`: predicate on obligation id (a property claims the obligations that carry it)"""
    c = res.contract
    out = []
    tier = c.tier
    bound = "" if tier == "T1" else "shapes: " + ", ".join(res.shapes[:12]) + (" ..." if len(res.shapes) > 12 else "")
    for oid, e in sorted(res.by_id.items()):
        if only is not None and not only(oid):
            continue
        st = {"proved": PROVED, "refuted": REFUTED, "undecided": UNDECIDED}[e["status"]]
        if res.max_paths_hit and st == PROVED:
            st = UNDECIDED
            e["detail"] = "path / time budget exhausted before all paths were explored"
        ob = Ob(id=f"{prop}/{tier}/{oid}", tier=tier, status=st, function=c.target, solver="z3-" + z3.get_version_string(), time_s=e["time"], bound=bound,
                detail=(f"line {e['line']}: " if e["line"] else "") + (e["detail"] or "") + (f" | shape {e['shape']}" if e.get("shape") else "") +
                       (f" | counter-model: {e['model']}" if e["model"] else ""))
        if st == REFUTED:
            ob.witness = {"obligation": oid, "function": c.target, "solver_model": e["model"], "path_decisions": e.get("path"), "input": e["witness"], "shape": e.get("shape")}
        ob.evaluations = e["instances"]
        out.append(ob)
    if res.crashes:
        out.append(Ob(id=f"{prop}/{tier}/{c.fname}/engine", tier=tier, status=UNDECIDED, function=c.target, detail="engine crash: " + res.crashes[0]))
    n = len([1 for oid in res.by_id if only is None or only(oid)])
    if only is None and n < c.min_obligations:
        out.append(Ob(id=f"{prop}/{tier}/{c.fname}/vacuity", tier=tier, status=UNDECIDED, function=c.target,
                      detail=f"only {n} obligations generated, expected at least {c.min_obligations} (vacuity guard)"))
    return out
