"""Symbolic model of python-mip (assumption A3, the ASSUMED contract of the dependency):
   add_var -> a fresh integer unknown; LinExpr arithmetic -> z3 terms; model += c -> collected constraint;
   optimize() -> status OPTIMAL  =>  the unknowns satisfy every collected constraint and minimise the objective over all assignments
   that do (instantiated for the contract's arbitrary alternative assignment); any other status is a free outcome.
   Solver attributes that relax optimality (gaps, node/solution limits) void the 'minimises' clause."""
from __future__ import annotations
import ast, z3
from . import logic as L
from .values import *

RELAXING = {"max_mip_gap", "max_mip_gap_abs", "max_nodes", "max_solutions", "opt_tol", "max_seconds_same_incumbent", "max_nodes_same_incumbent", "cutoff"}
HARMLESS = {"verbose", "threads", "preprocess", "seed", "emphasis", "cuts", "clique", "lp_method", "infeas_tol", "integer_tol", "store_search_progress_log", "sol_pool_size"}


class LinExpr:
    """a linear expression over the model's unknowns (a z3 Real term)"""
    def __init__(self, t, var=None):
        self.t, self.var = t, var

    def vc_binop(self, it, op, other, flip):
        o = other.t if isinstance(other, LinExpr) else z3.ToReal(term_of(other)) if L.is_int(term_of(other)) else term_of(other)
        a, b = (o, self.t) if flip else (self.t, o)
        if isinstance(op, ast.Add):
            return LinExpr(a + b)
        if isinstance(op, ast.Sub):
            return LinExpr(a - b)
        if isinstance(op, ast.Mult):
            return LinExpr(a * b)
        if isinstance(op, ast.Div) and not flip:
            return LinExpr(a / b)
        raise Unsupported("operator on a mip expression")

    def vc_compare(self, it, op, other, flip):
        o = other.t if isinstance(other, LinExpr) else z3.ToReal(term_of(other)) if L.is_int(term_of(other)) else term_of(other)
        a, b = (o, self.t) if flip else (self.t, o)
        f = {ast.LtE: lambda: a <= b, ast.GtE: lambda: a >= b, ast.Eq: lambda: a == b}.get(type(op))
        if f is None:
            raise Unsupported("strict or != comparison on a mip expression")
        return Constraint(f())

    def vc_getattr(self, it, name):
        if name == "x" and self.var is not None:
            if not getattr(self.var_model, "has_solution", False):
                return None
            return SV(self.var)          # the solver's value of this unknown (integral by var_type)
        raise Unsupported("mip expression attribute " + name)


class Constraint:
    def __init__(self, f):
        self.f = f


class Objective:
    def __init__(self, t):
        self.t = t


class Model:
    def __init__(self, it):
        self.it = it
        self.vars, self.constraints, self.objective, self.relaxed, self.solved = [], [], None, [], False
        self.attrs = {}
        if not hasattr(it, "mip_models"):
            it.mip_models = []
        it.mip_models.append(self)

    def vc_getattr(self, it, name):
        if name == "add_var":
            def add_var(it, a, k):
                vt = k.get("var_type", a[0] if a else "C")
                v = L.fresh("cnt", L.IntS if vt == "I" or vt == "B" else L.RealS)
                self.vars.append(v)
                if vt == "B":
                    self.constraints.append(z3.And(v >= 0, v <= 1))
                lb = k.get("lb", 0)
                e = LinExpr(z3.ToReal(v) if L.is_int(v) else v, var=v)
                e.var_model = self
                self.bounds = getattr(self, "bounds", []) + [(v, lb)]
                return e
            return Builtin("Model.add_var", add_var)
        if name == "optimize":
            return Builtin("Model.optimize", self.optimize)
        if name in self.attrs:
            return self.attrs[name]
        if name == "objective":
            return self.objective
        if name == "num_solutions":
            return getattr(self, "num_solutions", 0)
        raise Unsupported("mip.Model." + name)

    def vc_setattr(self, it, name, val):
        if name == "objective":
            if not isinstance(val, Objective):
                raise Unsupported("model.objective set to a non-objective")
            self.objective = val
        elif name in RELAXING:
            self.relaxed.append(name)
            self.attrs[name] = val
        elif name in HARMLESS:
            self.attrs[name] = val
        else:
            raise Unsupported(f"mip.Model attribute '{name}' is not part of the solver contract")

    def vc_binop(self, it, op, other, flip):
        if isinstance(op, ast.Add) and isinstance(other, Constraint) and not flip:
            self.constraints.append(other.f)
            return self
        if isinstance(op, ast.Add) and isinstance(other, (bool,)):
            raise Unsupported("a constraint without unknowns was added to the model")
        raise Unsupported("operator on a mip model")

    def optimize(self, it, a, k):
        it.trust("ASSUMED contract of python-mip/CBC (A3): status OPTIMAL => integral unknowns satisfying every constraint and minimising the objective "
                 "over all assignments that do; status FEASIBLE => unknowns satisfying every constraint (num_solutions >= 1), nothing about the objective; "
                 "any other status: no values (num_solutions = 0)")
        lbs = [v >= term_of(lb) for v, lb in getattr(self, "bounds", []) if lb is not None]
        feasible = z3.And(self.constraints + lbs) if (self.constraints or lbs) else z3.BoolVal(True)
        d = it.decide([feasible, feasible, z3.BoolVal(True)])
        self.status_formula = feasible
        self.num_solutions = 0
        if d == 2:
            self.solved = self.has_solution = False          # INFEASIBLE / NO_SOLUTION_FOUND / ERROR ...: no values
            return "NOT-OPTIMAL"
        n = L.fresh("num_solutions", L.IntS)
        it.assume(n >= 1)
        self.num_solutions = SV(n)
        self.has_solution = True
        if d == 1:
            self.solved = False                              # FEASIBLE: an incumbent that satisfies the constraints; nothing is known about its objective
            return "FEASIBLE"
        self.solved = True
        g = getattr(it, "ghost", None) or {}
        hook = g.get("optimality_instance")
        if self.objective is not None and hook is not None and not self.relaxed:
            it.assume(hook(self))          # the 'minimises' clause, instantiated for the contract's arbitrary alternative assignment
        return "OPTIMAL"


def module(it):
    m = ModuleV("mip")
    st = ModuleV("mip.OptimizationStatus")
    st.attrs.update({"OPTIMAL": "OPTIMAL", "FEASIBLE": "FEASIBLE", "INFEASIBLE": "INFEASIBLE", "NO_SOLUTION_FOUND": "NO_SOLUTION_FOUND", "UNBOUNDED": "UNBOUNDED"})

    def minimize(it, a, k):
        e = a[0]
        if isinstance(e, LinExpr):
            return Objective(e.t)
        return Objective(z3.ToReal(term_of(e)) if L.is_int(term_of(e)) else term_of(e))
    m.attrs.update({"Model": Builtin("mip.Model", lambda it, a, k: Model(it)), "INTEGER": "I", "BINARY": "B", "CONTINUOUS": "C",
                    "minimize": Builtin("mip.minimize", minimize), "maximize": Builtin("mip.maximize", lambda it, a, k: Objective(-minimize(it, a, k).t)),
                    "OptimizationStatus": st, "xsum": Builtin("mip.xsum", lambda it, a, k: it.call(it.force(__import__("pyvc.lib", fromlist=["BUILTINS"]).BUILTINS["sum"]), a, k))})
    return m
