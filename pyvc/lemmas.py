"""Lemmas about the spec functions, each discharged by its own induction obligations (base + step), never assumed.
Definitions (conservative):  rbag(a,lo,hi) = {} if lo >= hi else rbag(a,lo,hi-1) + {a[hi-1]}   (same for rtot)"""
import time, z3
from . import logic as L
from .report import Ob, PROVED, REFUTED, UNDECIDED


def _check(name, hyps, goal):
    s = z3.Solver()
    s.set("timeout", 20000)
    s.add(hyps)
    s.add(z3.Not(goal))
    t0 = time.time()
    r = s.check()
    return name, ("proved" if r == z3.unsat else "refuted" if r == z3.sat else "undecided"), time.time() - t0


def left_unfolding():
    a = z3.Const("a", L.ISeq)
    lo, hi = z3.Ints("lo hi")
    D = lambda l, h: L.unfold_right(a, l, h)
    E = lambda l, h: L.empty_range(a, l, h)
    out = []
    # base: hi = lo + 1
    out.append(_check("lemma/rbag-left-unfolding/base", [hi == lo + 1, D(lo, hi), E(lo, lo), E(lo + 1, hi)], L.unfold_left(a, lo, hi)))
    # step: lo < hi - 1, induction hypothesis at (lo, hi-1)
    out.append(_check("lemma/rbag-left-unfolding/step", [lo < hi - 1, L.unfold_left(a, lo, hi - 1), D(lo, hi), D(lo + 1, hi)], L.unfold_left(a, lo, hi)))
    return out


def concatenation():
    a = z3.Const("a", L.ISeq)
    lo, mid, hi = z3.Ints("lo mid hi")
    D = lambda l, h: L.unfold_right(a, l, h)
    E = lambda l, h: L.empty_range(a, l, h)
    out = []
    # induction on hi from mid: base hi = mid
    out.append(_check("lemma/rbag-window-concatenation/base", [lo <= mid, hi == mid, E(mid, mid)], L.concat(a, lo, mid, hi)))
    # step: mid <= hi-1, hypothesis at hi-1
    out.append(_check("lemma/rbag-window-concatenation/step", [lo <= mid, mid <= hi - 1, L.concat(a, lo, mid, hi - 1), D(lo, hi), D(mid, hi)], L.concat(a, lo, mid, hi)))
    return out


def obligations(prop):
    obs = []
    for name, st, dt in left_unfolding() + concatenation():
        obs.append(Ob(id=f"{prop}/T1/{name}", tier="T1", status={"proved": PROVED, "refuted": REFUTED, "undecided": UNDECIDED}[st],
                      function="pyvc/logic.py::rbag (spec function)", solver="z3-" + z3.get_version_string(), time_s=dt,
                      detail="induction on hi-lo; used wherever `del l[0]` consumes a window from the left"))
    return obs
